------------------------------- MODULE TaskSet -------------------------------
(***************************************************************************)
(* nexosim/src/util/task_set.rs: the set of sub-tasks of a broadcast       *)
(* future.  Each sub-task i has a waker; waking it pushes i on a lock-free *)
(* (Treiber) stack threaded through next[i], whose head word also carries  *)
(* a countdown: the owner (BroadcastFuture::poll) arms it with             *)
(* take_scheduled(c) when the stack is empty, and the waker that brings it *)
(* to zero notifies the owner's wake sink.  take_scheduled on a non-empty  *)
(* stack detaches it and returns an iterator that resets next[i] to        *)
(* SLEEPING as it goes.                                                    *)
(*                                                                         *)
(* One action per atomic load / CAS / swap / store.  Wakers run on any     *)
(* thread, the owner operations on one.                                    *)
(***************************************************************************)
EXTENDS Naturals, Integers, Sequences, FiniteSets, TLC

CONSTANTS
    N,          \* tasks 0..N-1
    Wakers,     \* waker threads
    MaxWakes,   \* wake_by_ref calls per waker thread
    MaxOwner,   \* owner operations
    Sequential, \* TRUE: operations do not overlap (histories for replay)
    KeepHist,   \* TRUE: the history of completed operations is kept
    Counts,     \* set of notify counts passed to take_scheduled
    Keeps       \* set of numbers of items consumed from the iterator before it is dropped

SLEEPING == N + 1
EMPTY == N          \* end of list / empty head
Tasks == 0..(N - 1)

VARIABLES
    head,       \* [idx: Tasks \cup {EMPTY}, cd: Nat]
    next,       \* [Tasks -> Tasks \cup {EMPTY, SLEEPING}]
    notified,   \* number of calls to notifier.notify()
    wpc, wl,    \* waker threads: pc and locals [i, n, h, left]
    opc, ol,    \* owner: pc and locals [h, ni, c, out, keep, left]
    pendingWake,\* ghost [Tasks -> BOOLEAN]: a wake_by_ref(i) completed since i was last yielded or discarded
    armed,      \* ghost: the owner's last take_scheduled found the stack empty and armed this countdown (0: not armed)
    wakesSinceArm, \* ghost: set of tasks whose wake_by_ref pushed them since the countdown was armed
    notifiedAtArm, \* ghost: value of notified when the countdown was armed
    hist        \* history of completed operations (for replay)

vars == <<head, next, notified, wpc, wl, opc, ol, pendingWake, armed, wakesSinceArm, notifiedAtArm, hist>>

Init ==
    /\ head = [idx |-> EMPTY, cd |-> 0]
    /\ next = [i \in Tasks |-> SLEEPING]
    /\ notified = 0
    /\ wpc = [t \in Wakers |-> "idle"]
    /\ wl = [t \in Wakers |-> [i |-> 0, n |-> 0, h |-> [idx |-> EMPTY, cd |-> 0], left |-> MaxWakes]]
    /\ opc = "idle"
    /\ ol = [h |-> [idx |-> EMPTY, cd |-> 0], ni |-> EMPTY, c |-> 0, out |-> <<>>, keep |-> 0, left |-> MaxOwner, op |-> "none"]
    /\ pendingWake = [i \in Tasks |-> FALSE]
    /\ armed = 0
    /\ wakesSinceArm = {}
    /\ notifiedAtArm = 0
    /\ hist = <<>>

(* the history is only kept for sequential replay: otherwise it would make every state distinct *)
Rec(x) == IF KeepHist /\ (Sequential \/ x.op # "wake") THEN Append(hist, x) ELSE hist

AllIdle == opc = "idle" /\ \A t \in Wakers : wpc[t] = "idle"
MayStart == ~Sequential \/ AllIdle

-----------------------------------------------------------------------------
(* Task::wake_by_ref *)

UW == <<opc, ol, armed, notifiedAtArm>>

WStart(t) ==
    /\ wpc[t] = "idle" /\ wl[t].left > 0 /\ MayStart
    /\ \E i \in Tasks :
          wl' = [wl EXCEPT ![t].i = i, ![t].n = next[i], ![t].left = @ - 1]      \* first load of next
    /\ wpc' = [wpc EXCEPT ![t] = "wa"]
    /\ UNCHANGED <<head, next, notified, pendingWake, wakesSinceArm, hist, UW>>

(* loop A *)
WLoopA(t) ==
    /\ wpc[t] = "wa"
    /\ IF wl[t].n = SLEEPING
       THEN /\ wl' = [wl EXCEPT ![t].h = head]                                 \* load of head
            /\ wpc' = [wpc EXCEPT ![t] = "wcasnext"]
            /\ UNCHANGED <<pendingWake, hist>>
       ELSE \* already scheduled: CAS next[i] n -> n
            IF next[wl[t].i] = wl[t].n
            THEN /\ wpc' = [wpc EXCEPT ![t] = "idle"]
                 /\ pendingWake' = [pendingWake EXCEPT ![wl[t].i] = TRUE]
                 /\ hist' = Rec([op |-> "wake", arg |-> wl[t].i, res |-> <<>>, nt |-> notified])
                 /\ UNCHANGED wl
            ELSE /\ wl' = [wl EXCEPT ![t].n = next[wl[t].i]]
                 /\ UNCHANGED <<wpc, pendingWake, hist>>
    /\ UNCHANGED <<head, next, notified, wakesSinceArm, UW>>

WCasNext(t) ==
    /\ wpc[t] = "wcasnext"
    /\ IF next[wl[t].i] = SLEEPING
       THEN /\ next' = [next EXCEPT ![wl[t].i] = wl[t].h.idx]
            /\ wpc' = [wpc EXCEPT ![t] = "wcashead"]
            /\ UNCHANGED wl
       ELSE /\ wl' = [wl EXCEPT ![t].n = next[wl[t].i]]
            /\ wpc' = [wpc EXCEPT ![t] = "wa"]
            /\ UNCHANGED next
    /\ UNCHANGED <<head, notified, pendingWake, wakesSinceArm, hist, UW>>

(* loop B *)
WCasHead(t) ==
    /\ wpc[t] = "wcashead"
    /\ IF head = wl[t].h
       THEN /\ head' = [idx |-> wl[t].i, cd |-> IF wl[t].h.cd = 0 THEN 0 ELSE wl[t].h.cd - 1]
            /\ wakesSinceArm' = IF armed > 0 THEN wakesSinceArm \cup {wl[t].i} ELSE wakesSinceArm
            /\ pendingWake' = [pendingWake EXCEPT ![wl[t].i] = TRUE]       \* the wake-up takes effect here
            /\ IF wl[t].h.cd = 1
               THEN /\ wpc' = [wpc EXCEPT ![t] = "wnotify"]
                    /\ UNCHANGED hist
               ELSE /\ wpc' = [wpc EXCEPT ![t] = "idle"]
                    /\ hist' = Rec([op |-> "wake", arg |-> wl[t].i, res |-> <<>>, nt |-> notified])
            /\ UNCHANGED wl
       ELSE /\ wl' = [wl EXCEPT ![t].h = head]
            /\ wpc' = [wpc EXCEPT ![t] = "wswap"]
            /\ UNCHANGED <<head, wakesSinceArm, pendingWake, hist>>
    /\ UNCHANGED <<next, notified, UW>>

WSwap(t) ==
    /\ wpc[t] = "wswap"
    /\ next' = [next EXCEPT ![wl[t].i] = wl[t].h.idx]
    /\ wpc' = [wpc EXCEPT ![t] = "wcashead"]
    /\ UNCHANGED <<head, notified, wl, pendingWake, wakesSinceArm, hist, UW>>

WNotify(t) ==
    /\ wpc[t] = "wnotify"
    /\ notified' = notified + 1
    /\ wpc' = [wpc EXCEPT ![t] = "idle"]
    /\ hist' = Rec([op |-> "wake", arg |-> wl[t].i, res |-> <<>>, nt |-> notified + 1])
    /\ UNCHANGED <<head, next, wl, wakesSinceArm, pendingWake, UW>>

-----------------------------------------------------------------------------
(* owner: take_scheduled(c) followed by iteration over the first `keep` items (then the iterator is dropped), *)
(* has_scheduled, discard_scheduled                                                                           *)

UO == <<wpc, wl, notified>>

OStartTake ==
    /\ opc = "idle" /\ ol.left > 0 /\ MayStart
    /\ \E c \in Counts, keep \in Keeps :
          ol' = [ol EXCEPT !.c = c, !.keep = keep, !.h = head, !.out = <<>>, !.left = @ - 1, !.op = "take"]   \* load of head
    /\ opc' = "tcas"
    /\ UNCHANGED <<head, next, pendingWake, armed, wakesSinceArm, notifiedAtArm, hist, UO>>

OTakeCas ==
    /\ opc = "tcas"
    /\ IF head = ol.h
       THEN /\ head' = IF ol.h.idx = EMPTY THEN [idx |-> EMPTY, cd |-> ol.c] ELSE [idx |-> EMPTY, cd |-> 0]
            /\ IF ol.h.idx = EMPTY
               THEN \* None: the countdown is armed
                    /\ opc' = "idle"
                    /\ armed' = ol.c
                    /\ wakesSinceArm' = {}
                    /\ notifiedAtArm' = notified
                    /\ hist' = Rec([op |-> ol.op, arg |-> ol.c, keep |-> ol.keep, res |-> IF ol.op = "discard" THEN <<>> ELSE <<-1>>, nt |-> notified])
                    /\ UNCHANGED ol
               ELSE /\ opc' = "iter"
                    /\ ol' = [ol EXCEPT !.ni = ol.h.idx]
                    /\ armed' = 0
                    /\ UNCHANGED <<wakesSinceArm, notifiedAtArm, hist>>
       ELSE /\ ol' = [ol EXCEPT !.h = head]
            /\ UNCHANGED <<head, opc, armed, wakesSinceArm, notifiedAtArm, hist>>
    /\ UNCHANGED <<next, pendingWake, UO>>

(* TaskIterator::next: swap next[index] <- SLEEPING *)
OIter ==
    /\ opc = "iter"
    /\ IF ol.ni = EMPTY \/ Len(ol.out) >= ol.keep
       THEN /\ opc' = IF ol.ni = EMPTY THEN "done" ELSE "dropload"
            /\ UNCHANGED <<ol, next, pendingWake>>
       ELSE /\ next' = [next EXCEPT ![ol.ni] = SLEEPING]
            /\ ol' = [ol EXCEPT !.ni = next[ol.ni], !.out = Append(@, ol.ni)]
            /\ pendingWake' = [pendingWake EXCEPT ![ol.ni] = FALSE]
            /\ UNCHANGED opc
    /\ UNCHANGED <<head, armed, wakesSinceArm, notifiedAtArm, hist, UO>>

(* TaskIterator::drop: the remaining tasks are put back to sleep (load, then store) *)
ODropLoad ==
    /\ opc = "dropload"
    /\ IF ol.ni = EMPTY
       THEN /\ opc' = "done"
            /\ UNCHANGED ol
       ELSE /\ ol' = [ol EXCEPT !.h = [idx |-> next[ol.ni], cd |-> 0]]         \* h.idx used as a scratch for the loaded next
            /\ opc' = "dropstore"
    /\ UNCHANGED <<head, next, pendingWake, armed, wakesSinceArm, notifiedAtArm, hist, UO>>

ODropStore ==
    /\ opc = "dropstore"
    /\ next' = [next EXCEPT ![ol.ni] = SLEEPING]
    /\ pendingWake' = [pendingWake EXCEPT ![ol.ni] = FALSE]
    /\ ol' = [ol EXCEPT !.ni = ol.h.idx]
    /\ opc' = "dropload"
    /\ UNCHANGED <<head, armed, wakesSinceArm, notifiedAtArm, hist, UO>>

ODone ==
    /\ opc = "done"
    /\ opc' = "idle"
    /\ hist' = Rec([op |-> ol.op, arg |-> ol.c, keep |-> ol.keep, res |-> ol.out, nt |-> notified])
    /\ UNCHANGED <<head, next, ol, pendingWake, armed, wakesSinceArm, notifiedAtArm, UO>>

(* has_scheduled: one load of the head *)
OHas ==
    /\ opc = "idle" /\ ol.left > 0 /\ MayStart
    /\ ol' = [ol EXCEPT !.left = @ - 1, !.op = "has"]
    /\ opc' = "hasload"
    /\ UNCHANGED <<head, next, pendingWake, armed, wakesSinceArm, notifiedAtArm, hist, UO>>

OHasLoad ==
    /\ opc = "hasload"
    /\ opc' = "idle"
    /\ hist' = Rec([op |-> "has", arg |-> 0, res |-> <<IF head.idx # EMPTY THEN 1 ELSE 0>>, nt |-> notified])
    /\ UNCHANGED <<head, next, ol, pendingWake, armed, wakesSinceArm, notifiedAtArm, UO>>

(* discard_scheduled: nothing if the head word is exactly "empty, no countdown"; else take_scheduled(0) and drop *)
ODiscard ==
    /\ opc = "idle" /\ ol.left > 0 /\ MayStart
    /\ ol' = [ol EXCEPT !.left = @ - 1, !.op = "discard"]
    /\ opc' = "dload"
    /\ UNCHANGED <<head, next, pendingWake, armed, wakesSinceArm, notifiedAtArm, hist, UO>>

ODiscardLoad ==
    /\ opc = "dload"
    /\ IF head = [idx |-> EMPTY, cd |-> 0]
       THEN /\ hist' = Rec([op |-> "discard", arg |-> 0, res |-> <<>>, nt |-> notified])
            /\ opc' = "idle"
            /\ UNCHANGED ol
       ELSE /\ ol' = [ol EXCEPT !.c = 0, !.keep = 0, !.h = head, !.out = <<>>]      \* take_scheduled(0): load of head
            /\ opc' = "tcas"
            /\ UNCHANGED hist
    /\ UNCHANGED <<head, next, pendingWake, armed, wakesSinceArm, notifiedAtArm, UO>>

Owner == OStartTake \/ OTakeCas \/ OIter \/ ODropLoad \/ ODropStore \/ ODone \/ OHas \/ OHasLoad \/ ODiscard
         \/ ODiscardLoad
Waker(t) == WStart(t) \/ WLoopA(t) \/ WCasNext(t) \/ WCasHead(t) \/ WSwap(t) \/ WNotify(t)

Next == Owner \/ \E t \in Wakers : Waker(t)

Spec == Init /\ [][Next]_vars

-----------------------------------------------------------------------------
(* Properties (C14: the parent of a broadcast is notified, no sub-task wake-up is lost) *)

RECURSIVE Chain(_, _)
Chain(i, fuel) == IF i \in Tasks /\ fuel > 0 THEN <<i>> \o Chain(next[i], fuel - 1) ELSE <<>>

ListFrom(i) == Chain(i, N + 1)
InSeq(s, x) == \E k \in 1..Len(s) : s[k] = x

(* the stack reachable from the head, and what the iterator still holds, are finite, duplicate-free lists *)
WellFormed ==
    /\ LET l == ListFrom(head.idx) IN Len(l) <= N /\ \A a, b \in 1..Len(l) : a # b => l[a] # l[b]
    /\ opc \in {"iter", "dropload"} =>
          LET l == ListFrom(ol.ni) IN Len(l) <= N /\ \A a, b \in 1..Len(l) : a # b => l[a] # l[b]

(* a completed wake-up is never lost: the task is on the stack, or in the list the owner is iterating over *)
InFlightPush(i) == \E t \in Wakers : wpc[t] \in {"wcashead", "wswap"} /\ wl[t].i = i
NoLostTask ==
    \A i \in Tasks : pendingWake[i] =>
        \/ InSeq(ListFrom(head.idx), i)
        \/ opc \in {"iter", "dropload", "dropstore"} /\ InSeq(ListFrom(ol.ni), i)
        \/ InFlightPush(i)

(* once the countdown c armed by the owner has been consumed by c pushes, the owner has been notified *)
NoLostNotify ==
    (armed > 0 /\ Cardinality(wakesSinceArm) >= armed /\ \A t \in Wakers : wpc[t] # "wnotify") =>
        notified > notifiedAtArm

=============================================================================
