--------------------------------- MODULE PQ ---------------------------------
(***************************************************************************)
(* Priority queues (C20): the scheduler's PriorityQueue and the keyed      *)
(* IndexedPriorityQueue.  An entry is (key, epoch, value); pull/peek yield *)
(* the minimum of (key, epoch), i.e. the smallest key and among equal keys *)
(* the one inserted first.  The keyed variant returns a handle at          *)
(* insertion; extract(handle) removes exactly the entry the handle was     *)
(* issued for, if it is still queued, and nothing otherwise - whatever     *)
(* happened to the storage slot in the meantime.                           *)
(*                                                                         *)
(* hist records each operation and the value it must return; behaviours    *)
(* are exported and replayed on the real data structures.                  *)
(***************************************************************************)
EXTENDS Naturals, Sequences, FiniteSets, TLC, Json

CONSTANTS
    Keys,      \* key alphabet
    Indexed,   \* TRUE: IndexedPriorityQueue (with extract)
    MaxOps,    \* length of exported behaviours
    MaxHandles \* extract is offered for the handles of the last MaxHandles inserts and the first one

VARIABLES items, nextEpoch, hist

vars == <<items, nextEpoch, hist>>

Init == items = {} /\ nextEpoch = 1 /\ hist = <<>>

Less(a, b) == a.key < b.key \/ (a.key = b.key /\ a.epoch < b.epoch)
Min == CHOOSE a \in items : \A b \in items : a = b \/ Less(a, b)

(* Ballast: a block of n entries inserted in one step with the key BallastKey (larger than every key the  *)
(* recorded sequences use otherwise), kept as ONE element of items: [key, epoch |-> first live epoch, hi,  *)
(* gone |-> epochs above the first that were extracted].  It lets recorded sequences hold more than 2^16   *)
(* live entries (storage indices and heap positions wider than 16 bits) at the cost of one set element.    *)
(* Ordering treats the block as its first live entry; entries with BallastKey inserted later have larger   *)
(* epochs than the whole block, so this is exact.                                                          *)
BallastKey == 9
IsBlock(a) == "hi" \in DOMAIN a
\* what remains of block b (a set of zero or one block) once its entry with epoch e is removed
Shrink(b, e) ==
    IF e # b.epoch THEN {[b EXCEPT !.gone = b.gone \cup {e}]}
    ELSE LET first == CHOOSE x \in (e + 1)..(e + 1 + Cardinality(b.gone)) :
                          x \notin b.gone /\ \A y \in (e + 1)..(x - 1) : y \in b.gone
         IN  IF first > b.hi THEN {}
             ELSE {[b EXCEPT !.epoch = first, !.gone = {g \in b.gone : g > first}]}
Without(a) == IF IsBlock(a) THEN (items \ {a}) \cup Shrink(a, a.epoch) ELSE items \ {a}

Log(op, arg, ret) == hist' = Append(hist, [op |-> op, arg |-> arg, ret |-> ret])

(* the value stored is the insertion number, which identifies the entry *)
Insert(k) ==
    /\ items' = items \cup {[key |-> k, epoch |-> nextEpoch]}
    /\ nextEpoch' = nextEpoch + 1
    /\ Log("insert", k, <<>>)

Pull ==
    /\ items' = IF items = {} THEN items ELSE Without(Min)
    /\ Log("pull", 0, IF items = {} THEN <<>> ELSE <<Min.key, Min.epoch>>)
    /\ UNCHANGED nextEpoch

Peek ==
    /\ Log("peek", 0, IF items = {} THEN <<>> ELSE <<Min.key, Min.epoch>>)
    /\ UNCHANGED <<items, nextEpoch>>

(* extract with the handle returned by the h-th insert *)
Extract(h) ==
    /\ Indexed
    /\ h < nextEpoch
    /\ LET hit == {a \in items : IF IsBlock(a) THEN h >= a.epoch /\ h <= a.hi /\ h \notin a.gone ELSE a.epoch = h}
       IN  /\ items' = IF hit = {} THEN items
                       ELSE LET a == CHOOSE x \in hit : TRUE
                            IN  IF IsBlock(a) THEN (items \ {a}) \cup Shrink(a, h) ELSE items \ {a}
           /\ Log("extract", h, IF hit = {} THEN <<>>
                                ELSE LET a == CHOOSE x \in hit : TRUE IN <<a.key, h>>)
    /\ UNCHANGED nextEpoch

(* n inserts with BallastKey in one step (recorded sequences only; needs every queued key <= BallastKey    *)
(* to be irrelevant, i.e. no block already queued)                                                         *)
Ballast(n) ==
    /\ n > 0 /\ \A a \in items : ~IsBlock(a)
    /\ items' = items \cup {[key |-> BallastKey, epoch |-> nextEpoch, hi |-> nextEpoch + n - 1, gone |-> {}]}
    /\ nextEpoch' = nextEpoch + n
    /\ Log("ballast", n, <<n>>)

(* n times (insert an entry whose key k is below every queued key, pull): each pull must return *)
(* the entry just inserted; the queue is left as it was, n epochs later.  Used by recorded      *)
(* sequences to reach large insertion counts (an insertion counter narrower than the number of  *)
(* insertions shows as a wrong order among equal keys afterwards).  ret = number of pairs whose *)
(* pull returned the inserted entry.                                                            *)
Churn(n, k) ==
    /\ \A a \in items : a.key > k
    /\ nextEpoch' = nextEpoch + n
    /\ Log("churn", n, <<n>>)
    /\ UNCHANGED items

Handles == {h \in 1..(nextEpoch - 1) : h = 1 \/ h + MaxHandles >= nextEpoch}

Next ==
    /\ Len(hist) < MaxOps
    /\ \/ \E k \in Keys : Insert(k)
       \/ Pull
       \/ Peek
       \/ \E h \in Handles : Extract(h)

Spec == Init /\ [][Next]_vars

-----------------------------------------------------------------------------
(* Every pulled entry is the minimum of what was queued (restating the    *)
(* definition against the history, as a sanity check of the model).       *)
EpochsUnique == \A a, b \in items : a.epoch = b.epoch => a = b

Emit == (Len(hist) = MaxOps) => PrintT(<<"BEHAVIOUR", ToJson(hist)>>)
=============================================================================
