------------------------------ MODULE PQ_Trace ------------------------------
(* Trace validation for PQ: each logged operation {op, arg, ret} of the real *)
(* queue must be the PQ action with that argument returning that value.      *)
EXTENDS PQ, IOUtils

Rec == ndJsonDeserialize(IOEnv.TRACE)

VARIABLE l
tvars == <<vars, l>>

Ev == Rec[l]

TraceInit == Init /\ l = 1 /\ TLCSet(1, 0)

Consume(e) == l <= Len(Rec) /\ Rec[l].op = e /\ l' = l + 1

Returned == hist'[Len(hist')].ret = Ev.ret

(* hist is only used to read the value returned by the current operation *)
Fresh == hist = <<>>

TraceNext ==
    \/ /\ Consume("reset") /\ items' = {} /\ nextEpoch' = 1 /\ hist' = <<>>
    \/ /\ Consume("insert") /\ Insert(Ev.arg) /\ Returned
    \/ /\ Consume("pull") /\ Pull /\ Returned
    \/ /\ Consume("peek") /\ Peek /\ Returned
    \/ /\ Consume("churn") /\ Churn(Ev.arg, 0) /\ Returned
    \/ /\ Consume("ballast") /\ Ballast(Ev.arg) /\ Returned
    \/ /\ Consume("extract") /\ Extract(Ev.arg) /\ Returned

TraceSpec == TraceInit /\ [][TraceNext]_tvars

Track == IF l - 1 > TLCGet(1) THEN TLCSet(1, l - 1) ELSE TRUE

TraceAccepted ==
    LET n == TLCGet(1) IN
    IF n = Len(Rec) THEN TRUE
    ELSE /\ PrintT(<<"TRACE_REJECTED", n, ToJson(Rec[n + 1])>>)
         /\ FALSE
=============================================================================
