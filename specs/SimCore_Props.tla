--------------------------- MODULE SimCore_Props ---------------------------
(***************************************************************************)
(* The properties C01 C07 C08 C09 C10 C11 C18 over the state of SimCore    *)
(* (including its ghost variables).  They are checked by TLC on the        *)
(* bounded instances (MC_SimCore) and on every state of every validated    *)
(* implementation trace (SimCore_Trace).                                   *)
(***************************************************************************)
EXTENDS SimCore

-----------------------------------------------------------------------------
(* C01 - chronological execution *)
TimeMonotone == [][now' >= now]_vars

PendingStrictlyFuture == \A a \in LiveSet : a.time > now

FiresAtDeadline == \A i \in DOMAIN fired : fired[i].time = fired[i].due

ChronologicalOrder == \A i, j \in DOMAIN fired : i < j => fired[i].time <= fired[j].time

StepPost ==
    (phase = "ret" /\ result = ROk) =>
        /\ cmd.name = "step" => now = cmd.exp
        /\ cmd.name \in {"step_until", "step_until_final", "step_until_same"} => now = cmd.bound
        /\ cmd.name \in {"event", "query", "action"} => now = cmd.t0

(* Number of firings a series must have had once the simulation is idle at now. *)
Expected(s, t) == IF t < s.first THEN 0 ELSE IF s.per = 0 THEN 1 ELSE ((t - s.first) \div s.per) + 1

FiringsOf(s) == SelectSeq(fired, LAMBDA f : f.sid = s.sid)

NumTargets(s) == IF s.cls = "ev" THEN (IF s.target \in Models THEN 1 ELSE 0)
                 ELSE Cardinality({i \in 1..Len(SrcConn[s.target]) : SrcConn[s.target][i] \in Models})

(* C01/C08/C10: at rest, every accepted request that was never cancelled has *)
(* fired exactly at first + k*per for every k with first + k*per <= now,     *)
(* once per connected recipient.                                             *)
ExactFirings ==
    (phase = "idle" /\ ~terminated) =>
        \A s \in sched :
            LET fs == FiringsOf(s)
                nt == NumTargets(s)
            IN  /\ (s.key = 0 \/ s.key \notin cancelled) => Len(fs) = nt * Expected(s, now)
                /\ Len(fs) <= nt * Expected(s, now)
                /\ \A i \in DOMAIN fs : \E k \in 0..now :
                       /\ fs[i].time = s.first + k * s.per
                       /\ (s.per = 0 => k = 0)

(* C08 *)
ScheduleValidated == \A s \in sched : s.first > s.at /\ (s.periodic => s.per > 0)

(* C07 *)
SameOriginFifo ==
    \A i, j \in DOMAIN fired :
        (i < j /\ fired[i].ep > 0 /\ fired[j].ep > 0 /\ fired[i].time = fired[j].time
           /\ fired[i].model = fired[j].model /\ fired[i].origin = fired[j].origin)
        => fired[i].ep < fired[j].ep

(* C09 *)
NoFireAfterCancel ==
    \A k \in DOMAIN cancelPos : \A i \in DOMAIN fired :
        i > cancelPos[k].n =>
            /\ fired[i].key # k
            \* an event-source action cannot be cancelled once its step has begun
            /\ fired[i].akey = k => (fired[i].time = cancelPos[k].t /\ cancelPos[k].ph = "run")

CancelIsLocal ==
    (phase = "idle" /\ ~terminated) =>
        \A s \in sched : (s.key = 0) => Len(FiringsOf(s)) = NumTargets(s) * Expected(s, now)

(* C11 *)
TerminatedSticky ==
    (terminated /\ termAt # NotTerminated) =>
        /\ now = termAt.now
        /\ Len(fired) = termAt.nfired
        /\ Len(synced) = termAt.nsynced
        /\ phase \in {"idle", "ret"}
        /\ phase = "ret" => result = RTerminated

NonFatalKeepsUsable ==
    (phase = "ret" /\ result.r \in {"invalid_deadline", "badquery", "ok"} /\ cmd.name # "none")
        => (terminated = (termAt # NotTerminated))

(* C18 *)
SyncMonotone == \A i \in 1..(Len(synced) - 1) : synced[i] <= synced[i + 1]

SyncBeforeCompute == \A i \in DOMAIN fired : synced[fired[i].nsync] = fired[i].time

SyncCoversNow == phase \in {"run", "idle"} /\ ~terminated => synced[Len(synced)] = now

SyncOncePerNewTime ==
    \A i, j \in DOMAIN synced : (i < j /\ synced[i] = synced[j]) =>
        \* only the redundant call of step_until(now) may repeat a time
        j = i + 1 \/ \A k \in i..j : synced[k] = synced[i]

OutOfSyncGates ==
    (phase = "ret" /\ result.r = "outofsync") => \A i \in DOMAIN fired : fired[i].nsync < Len(synced)

=============================================================================
