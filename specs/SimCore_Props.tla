--------------------------- MODULE SimCore_Props ---------------------------
(***************************************************************************)
(* The properties C01 C07 C08 C09 C10 C11 C18 over the state of SimCore    *)
(* (including its ghost variables).  They are checked by TLC on the        *)
(* bounded instances (MC_SimCore) and on every state of every validated    *)
(* implementation trace (SimCore_Trace).                                   *)
(***************************************************************************)
EXTENDS SimCore

-----------------------------------------------------------------------------
(* C01 - chronological execution *)
TimeMonotone == [][now' >= now]_vars

PendingStrictlyFuture == \A a \in LiveSet : a.time > now

(* all handler starts, of every model *)
AllFired == UNION {{fired[m][i] : i \in 1..Len(fired[m])} : m \in Models}

FiresAtDeadline == \A f \in AllFired : f.time = f.due

(* per model the times seen never decrease; across models this follows from TimeMonotone and *)
(* FiresAtDeadline, every handler seeing the current time                                    *)
ChronologicalOrder ==
    /\ \A m \in Models : \A i, j \in 1..Len(fired[m]) : i < j => fired[m][i].time <= fired[m][j].time
    /\ \A f \in AllFired : f.time <= now

StepPost ==
    (phase = "ret" /\ result = ROk) =>
        /\ cmd.name = "step" => now = cmd.exp
        /\ cmd.name \in {"step_until", "step_until_final", "step_until_same"} => now = cmd.bound
        /\ cmd.name \in {"event", "query", "action"} => now = cmd.t0

(* Number of firings a series must have had once the simulation is idle at now. *)
Expected(s, t) == IF t < s.first THEN 0 ELSE IF s.per = 0 THEN 1 ELSE ((t - s.first) \div s.per) + 1

FiringsOf(s) == {f \in AllFired : f.sid = s.sid}
NFirings(s) == LET F[S \in SUBSET Models] ==
                     IF S = {} THEN 0
                     ELSE LET m == CHOOSE x \in S : TRUE
                          IN  Cardinality({i \in 1..Len(fired[m]) : fired[m][i].sid = s.sid}) + F[S \ {m}]
               IN  F[Models]

NumTargets(s) == IF s.cls = "ev" THEN (IF s.target \in Models THEN 1 ELSE 0)
                 ELSE Cardinality({i \in 1..Len(SrcConn[s.target]) : SrcConn[s.target][i] \in Models})

(* C01/C08/C10: at rest, every accepted request that was never cancelled has *)
(* fired exactly at first + k*per for every k with first + k*per <= now,     *)
(* once per connected recipient.                                             *)
ExactFirings ==
    (phase = "idle" /\ ~terminated) =>
        \A s \in sched :
            LET nf == NFirings(s)
                nt == NumTargets(s)
            IN  /\ (s.key = 0 \/ s.key \notin cancelled) => nf = nt * Expected(s, now)
                /\ nf <= nt * Expected(s, now)
                /\ \A f \in FiringsOf(s) : \E k \in 0..now :
                       /\ f.time = s.first + k * s.per
                       /\ (s.per = 0 => k = 0)
                \* once per recipient at each occurrence time
                /\ \A m \in Models : \A i, j \in 1..Len(fired[m]) :
                       (i < j /\ fired[m][i].sid = s.sid /\ fired[m][j].sid = s.sid /\ s.cls = "ev")
                          => fired[m][i].time < fired[m][j].time

(* C08 *)
ScheduleValidated == \A s \in sched : s.first > s.at /\ (s.periodic => s.per > 0)

(* C07 *)
SameOriginFifo ==
    \A m \in Models : \A i, j \in 1..Len(fired[m]) :
        (i < j /\ fired[m][i].ep > 0 /\ fired[m][j].ep > 0 /\ fired[m][i].time = fired[m][j].time
           /\ fired[m][i].origin = fired[m][j].origin)
        => fired[m][i].ep < fired[m][j].ep

(* C09 *)
NoFireAfterCancel ==
    \A k \in DOMAIN cancelPos : \A m \in Models : \A i \in 1..Len(fired[m]) :
        i > cancelPos[k].n[m] =>
            /\ fired[m][i].key # k
            \* an event-source action cannot be cancelled once its step has begun
            /\ fired[m][i].akey = k => (fired[m][i].time = cancelPos[k].t /\ cancelPos[k].ph = "run")

CancelIsLocal ==
    (phase = "idle" /\ ~terminated) =>
        \A s \in sched : (s.key = 0) => NFirings(s) = NumTargets(s) * Expected(s, now)

(* C11 *)
TerminatedSticky ==
    (terminated /\ termAt # NotTerminated) =>
        /\ now = termAt.now
        /\ \A m \in Models : Len(fired[m]) = termAt.nfired[m]
        /\ Len(synced) = termAt.nsynced
        /\ phase \in {"idle", "ret"}
        /\ phase = "ret" => result = RTerminated

NonFatalKeepsUsable ==
    (phase = "ret" /\ result.r \in {"invalid_deadline", "badquery", "ok"} /\ cmd.name # "none")
        => (terminated = (termAt # NotTerminated))

(* C18 *)
SyncMonotone == \A i \in 1..(Len(synced) - 1) : synced[i] <= synced[i + 1]

SyncBeforeCompute == \A f \in AllFired : synced[f.nsync] = f.time

SyncCoversNow == phase \in {"run", "idle"} /\ ~terminated => synced[Len(synced)] = now

SyncOncePerNewTime ==
    \A i, j \in DOMAIN synced : (i < j /\ synced[i] = synced[j]) =>
        \* only the redundant call of step_until(now) may repeat a time
        j = i + 1 \/ \A k \in i..j : synced[k] = synced[i]

OutOfSyncGates ==
    (phase = "ret" /\ result.r = "outofsync") => \A f \in AllFired : f.nsync < Len(synced)

=============================================================================
