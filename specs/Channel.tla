------------------------------- MODULE Channel -------------------------------
(***************************************************************************)
(* The mailbox channel (nexosim/src/channel.rs) at the granularity of one   *)
(* poll of a send or receive future: the bounded queue, the FIFO wait set  *)
(* of suspended senders (async-event `Event`: wait_until = remove own       *)
(* notifier, check, insert at the back, re-check; notify_one pops the      *)
(* front; a cancelled notified waiter passes its notification on), the     *)
(* single waker of the receiver (diatomic-waker: check, register,          *)
(* re-check; notify wakes the registered waker and consumes the            *)
(* registration),                                                          *)
(* the count of in-flight messages, close on drop of the receiver.         *)
(*                                                                         *)
(* All operations are issued by one thread (the harness polls the futures  *)
(* by hand with counting wakers), so a history determines every result,    *)
(* every wake-up count, the received sequence, the mailbox length and the  *)
(* message count: TLC enumerates the histories and each is replayed on the *)
(* real channel.                                                           *)
(***************************************************************************)
EXTENDS Naturals, Integers, Sequences, FiniteSets, TLC

CONSTANTS
    Cap,        \* capacity of the mailbox
    Futs,       \* ids of send futures (the value sent by future f is f)
    MaxRecv,    \* number of receive futures that may be created
    MaxOps      \* length bound of a history

VARIABLES
    q,          \* messages in the mailbox
    closed,
    rxalive,    \* the receiver exists
    sf,         \* [Futs -> [st, woken, pend]]  st: "none" | "new" | "waiting" | "done" | "dropped"
    ws,         \* FIFO wait set of suspended send futures
    rn,         \* number of receive futures created
    rst,        \* state of the current receive future: "none" | "new" | "waiting"
    rreg,       \* receive future whose waker is registered with the receiver signal (0: none)
    rwoken,     \* [1..MaxRecv -> Nat] wake-ups delivered to the waker of each receive future
    rpend,      \* the current receive future was woken since its last poll
    received,   \* values processed by the receiver
    pushed,     \* ghost: values accepted, in order
    count,      \* the thread's count of in-flight messages
    hist,       \* history: operations with their result and the observables after each
    nops

vars == <<q, closed, rxalive, sf, ws, rn, rst, rreg, rwoken, rpend, received, pushed, count, hist, nops>>

Init ==
    /\ q = <<>> /\ closed = FALSE /\ rxalive = TRUE
    /\ sf = [f \in Futs |-> [st |-> "new", woken |-> 0, pend |-> FALSE]]     \* creating a send future has no effect
    /\ ws = <<>>
    /\ rn = 0 /\ rst = "none" /\ rreg = 0 /\ rwoken = [i \in 1..MaxRecv |-> 0] /\ rpend = FALSE
    /\ received = <<>> /\ pushed = <<>> /\ count = 0
    /\ hist = <<>> /\ nops = 0

Remove(s, x) == SelectSeq(s, LAMBDA y : y # x)
InSeq(s, x) == \E i \in 1..Len(s) : s[i] = x

Obs(sf1, rw1, rec1, q1, c1) ==
    [swoken |-> [f \in Futs |-> sf1[f].woken], rwoken |-> rw1, received |-> rec1, len |-> Len(q1), count |-> c1]

Log(op, arg, res, sf1, rw1, rec1, q1, c1) ==
    /\ hist' = Append(hist, [op |-> op, arg |-> arg, res |-> res, obs |-> Obs(sf1, rw1, rec1, q1, c1)])
    /\ nops' = nops + 1

(* wake the waker of send future f *)
WakeS(s, f) == [s EXCEPT ![f].woken = @ + 1, ![f].pend = TRUE]

(* Sender::send(..) is called: the future exists, nothing has happened yet *)
NewSend(f) ==
    /\ sf[f].st = "none"
    /\ sf' = [sf EXCEPT ![f].st = "new"]
    /\ Log("new_send", f, "-", sf', rwoken, received, q, count)
    /\ UNCHANGED <<q, closed, rxalive, ws, rn, rst, rreg, rwoken, rpend, received, pushed, count>>

(* one poll of a send future *)
PollSend(f) ==
    /\ sf[f].st \in {"new", "waiting"}
    /\ LET ws1 == Remove(ws, f) IN            \* wait_until first removes its own notifier
       IF closed
       THEN /\ sf' = [sf EXCEPT ![f].st = "done", ![f].pend = FALSE]
            /\ ws' = ws1
            /\ Log("poll_send", f, "err", sf', rwoken, received, q, count)
            /\ UNCHANGED <<q, rwoken, rpend, pushed, count, rreg>>
       ELSE IF Len(q) < Cap
       THEN \* pushed; the receiver's registered waker is notified
            /\ q' = Append(q, f)
            /\ pushed' = Append(pushed, f)
            /\ count' = count + 1
            /\ sf' = [sf EXCEPT ![f].st = "done", ![f].pend = FALSE]
            /\ ws' = ws1
            /\ rwoken' = IF rreg # 0 THEN [rwoken EXCEPT ![rreg] = @ + 1] ELSE rwoken
            /\ rpend' = IF rreg # 0 /\ rreg = rn /\ rst = "waiting" THEN TRUE ELSE rpend
            /\ rreg' = 0
            /\ Log("poll_send", f, "ok", sf', rwoken', received, q', count')
       ELSE \* full: the notifier goes to the back of the wait set
            /\ sf' = [sf EXCEPT ![f].st = "waiting", ![f].pend = FALSE]
            /\ ws' = Append(ws1, f)
            /\ Log("poll_send", f, "pending", sf', rwoken, received, q, count)
            /\ UNCHANGED <<q, rwoken, rpend, pushed, count, rreg>>
    /\ UNCHANGED <<closed, rxalive, rn, rst, received>>

(* a suspended send future is dropped: a notification it had received is passed on to the next waiter *)
DropSend(f) ==
    /\ sf[f].st = "waiting"                   \* (dropping a future that was never polled has no effect)
    /\ IF sf[f].st = "waiting" /\ ~InSeq(ws, f) /\ ws # <<>>
       THEN /\ sf' = WakeS([sf EXCEPT ![f].st = "dropped", ![f].pend = FALSE], Head(ws))
            /\ ws' = Tail(ws)
       ELSE /\ sf' = [sf EXCEPT ![f].st = "dropped", ![f].pend = FALSE]
            /\ ws' = Remove(ws, f)
    /\ Log("drop_send", f, "-", sf', rwoken, received, q, count)
    /\ UNCHANGED <<q, closed, rxalive, rn, rst, rreg, rwoken, rpend, received, pushed, count>>

(* Receiver::recv() is called *)
NewRecv ==
    /\ rxalive /\ rst = "none" /\ rn < MaxRecv
    /\ rn' = rn + 1
    /\ rst' = "new"
    /\ rpend' = FALSE
    /\ Log("new_recv", rn', "-", sf, rwoken, received, q, count)
    /\ UNCHANGED <<q, closed, rxalive, sf, ws, rreg, rwoken, received, pushed, count>>

(* one poll of the receive future *)
PollRecv ==
    /\ \/ rst \in {"new", "waiting"}
       \/ rst = "none" /\ rxalive /\ rn < MaxRecv          \* Receiver::recv() is called and its future polled at once
    /\ rn' = IF rst = "none" THEN rn + 1 ELSE rn
    /\ IF q # <<>>
       THEN \* a message is processed, its slot freed, one suspended sender notified
            /\ q' = Tail(q)
            /\ received' = Append(received, Head(q))
            /\ count' = count - 1
            /\ IF ws # <<>>
               THEN /\ sf' = WakeS(sf, Head(ws))
                    /\ ws' = Tail(ws)
               ELSE UNCHANGED <<sf, ws>>
            /\ rst' = "none"
            /\ rpend' = FALSE
            /\ UNCHANGED rreg
            /\ Log("poll_recv", rn', "ok", sf', rwoken, received', q', count')
       ELSE IF closed
       THEN /\ rst' = "none"
            /\ rpend' = FALSE
            /\ Log("poll_recv", rn', "err", sf, rwoken, received, q, count)
            /\ UNCHANGED <<q, received, count, sf, ws, rreg>>
       ELSE \* empty: the waker is registered
            /\ rst' = "waiting"
            /\ rreg' = rn'
            /\ rpend' = FALSE
            /\ Log("poll_recv", rn', "pending", sf, rwoken, received, q, count)
            /\ UNCHANGED <<q, received, count, sf, ws>>
    /\ UNCHANGED <<closed, rxalive, rwoken, pushed>>

(* the receive future is dropped before completion (its waker stays registered) *)
DropRecv ==
    /\ rst \in {"new", "waiting"}
    /\ rst' = "none"
    /\ rpend' = FALSE
    /\ Log("drop_recv", rn, "-", sf, rwoken, received, q, count)
    /\ UNCHANGED <<q, closed, rxalive, sf, ws, rn, rreg, rwoken, received, pushed, count>>

(* the receiver is dropped: the mailbox is closed and every suspended sender notified *)
DropReceiver ==
    /\ rxalive /\ rst = "none"
    /\ rxalive' = FALSE
    /\ closed' = TRUE
    /\ sf' = [f \in Futs |-> IF InSeq(ws, f) THEN [sf[f] EXCEPT !.woken = @ + 1, !.pend = TRUE] ELSE sf[f]]
    /\ ws' = <<>>
    /\ Log("drop_receiver", 0, "-", sf', rwoken, received, q, count)
    /\ UNCHANGED <<q, rn, rst, rreg, rwoken, rpend, received, pushed, count>>

Next ==
    /\ nops < MaxOps
    /\ \/ \E f \in Futs : PollSend(f) \/ DropSend(f)
       \/ PollRecv \/ DropRecv \/ DropReceiver

Spec == Init /\ [][Next]_vars

-----------------------------------------------------------------------------
(* C12 *)

Bounded == Len(q) <= Cap

(* nothing lost, duplicated or reordered *)
Lossless == received \o q = pushed

(* the reported length and the in-flight count are exact *)
CountExact == count = Len(q)

(* a sender waiting for space is resumed once there is space (or the mailbox is closed): whenever a sender is *)
(* suspended while it could proceed, some suspended sender has a wake-up pending                               *)
Suspended == {f \in Futs : sf[f].st = "waiting"}
NoStuckSender ==
    (Suspended # {} /\ (Len(q) < Cap \/ closed)) =>
        IF closed THEN \A f \in Suspended : sf[f].pend
        ELSE \E f \in Suspended : sf[f].pend

(* the receiver waiting for a message is resumed once there is one *)
NoStuckReceiver == (rst = "waiting" /\ q # <<>>) => rpend

(* only suspended futures sit in the wait set, each at most once *)
WaitSetSane ==
    /\ \A i \in 1..Len(ws) : sf[ws[i]].st = "waiting"
    /\ \A i, j \in 1..Len(ws) : i # j => ws[i] # ws[j]
=============================================================================
