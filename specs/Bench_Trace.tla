----------------------------- MODULE Bench_Trace -----------------------------
(***************************************************************************)
(* Trace validation for Bench: an execution of the real crate recorded by  *)
(* /verif/harness (engine `bench`) is accepted iff it is a behaviour of    *)
(* Bench.  Events (one per line) and the action each binds to:             *)
(*   reset exact                re-initialisation; exact = TRUE when the   *)
(*                              run was single-threaded under schedule     *)
(*                              control, in which case mailbox pushes and  *)
(*                              pops are logged at the moment they happen  *)
(*   cmd c=init|process ...     DInit / DProcess                           *)
(*   ib m name, ie m            InitBegin(m) / HE(m) for Model::init       *)
(*   pop m          (exact)     Pop(m)                                     *)
(*   hb m id prog kind name     HB(m) for the message with that identity   *)
(*   ss m n op port prog        OpStart(m), the n-th port operation of m   *)
(*   push t tgt     (exact)     Push(t, i) for a sub-send of t to tgt      *)
(*   sd m n replies             OpDone(m); for a query, the replies        *)
(*   he m                       HE(m)                                      *)
(*   ret res sinks reply        DReturn: result, sink contents, reply      *)
(*   end                        end of the run                             *)
(* Silent actions inferred by TLC: Quiesce, the one-shot driver task's     *)
(* OpDone, writes to sinks, and - when exact = FALSE (thread pool) - Pop   *)
(* and Push, whose log position would not be their real position.          *)
(***************************************************************************)
EXTENDS Bench, Json, IOUtils

Rec == ndJsonDeserialize(IOEnv.TRACE)

VARIABLES l, exact, stage

tvars == <<vars, l, exact, stage>>

Ev == Rec[l]

IsEvent(e) == l <= Len(Rec) /\ Rec[l].ev = e /\ l' = l + 1

TraceInit == Init /\ l = 1 /\ exact = TRUE /\ stage = "reset" /\ TLCSet(1, 0)

Reset ==
    /\ IsEvent("reset")
    /\ stage \in {"reset", "ended"}
    /\ phase' = "idle" /\ cmd' = NoCmd
    /\ q' = [b \in Boxes |-> <<>>]
    /\ ms' = [t \in Tasks |-> IF t \in Models THEN [IdleTask EXCEPT !.st = "uninit"] ELSE IdleTask]
    /\ sinkLog' = [s \in Sinks |-> <<>>]
    /\ result' = ROk /\ inited' = {} /\ terminated' = FALSE /\ panicked' = ""
    /\ vc' = [t \in Tasks |-> ZeroVC] /\ seen' = [m \in Models |-> {}] /\ handled' = <<>> /\ sent' = <<>>
    /\ exact' = Ev.exact
    /\ stage' = "run"

Running == stage = "run"
Keep == UNCHANGED <<exact, stage>>

TCmd ==
    /\ IsEvent("cmd") /\ Running
    /\ \/ Ev.c = "init" /\ DInit
       \/ Ev.c = "process" /\ DProcess(Ev.kind, Ev.target, Ev.prog)
    /\ Keep

(* C16: the name seen by the model is its fully qualified name; C05: no overlap with another computation of the model. *)
TInitBegin ==
    /\ IsEvent("ib") /\ Running
    /\ Ev.m \in Models /\ Ev.name = Ev.m /\ Ev.overlap = FALSE
    /\ InitBegin(Ev.m)
    /\ Keep

TInitEnd ==
    /\ IsEvent("ie") /\ Running
    /\ Ev.m \in Models /\ "init" \in DOMAIN ms[Ev.m].cur
    /\ HE(Ev.m)
    /\ Keep

TPop ==
    /\ IsEvent("pop") /\ Running /\ exact
    /\ Ev.m \in Models
    /\ Pop(Ev.m)
    /\ Keep

THB ==
    /\ IsEvent("hb") /\ Running
    /\ Ev.m \in Models /\ Ev.name = Ev.m /\ Ev.overlap = FALSE
    /\ HB(Ev.m)
    /\ ms[Ev.m].cur.id = Ev.id /\ ms[Ev.m].cur.prog = Ev.prog /\ ms[Ev.m].cur.kind = Ev.kind
    /\ Keep

TOpStart ==
    /\ IsEvent("ss") /\ Running
    /\ Ev.m \in Models
    /\ OpStart(Ev.m)
    /\ LET op == CurOp(Ev.m) IN
       /\ op.op = Ev.op
       /\ op.op \notin {"nop", "panic"} => (op.port = Ev.port /\ op.prog = Ev.prog /\ ms[Ev.m].n + 1 = Ev.n)
    /\ Keep

TPush ==
    /\ IsEvent("push") /\ Running /\ exact
    /\ Ev.t \in Tasks
    /\ \E i \in 1..Len(ms[Ev.t].subs) : ms[Ev.t].subs[i].tgt = Ev.tgt /\ Push(Ev.t, i)
    /\ Keep

TOpDone ==
    /\ IsEvent("sd") /\ Running
    /\ Ev.m \in Models
    /\ OpDone(Ev.m)
    /\ ms[Ev.m].n = Ev.n
    \* Ev.take: number of replies the model read from the reply iterator before dropping it (-1: all of them)
    /\ ms[Ev.m].opkind = "query" =>
          IF Ev.take < 0 THEN Replies(Ev.m) = Ev.replies
          ELSE LET r == Replies(Ev.m) IN SubSeq(r, 1, IF Ev.take < Len(r) THEN Ev.take ELSE Len(r)) = Ev.replies
    /\ Keep

THE ==
    /\ IsEvent("he") /\ Running
    /\ Ev.m \in Models /\ "init" \notin DOMAIN ms[Ev.m].cur
    /\ HE(Ev.m)
    /\ Keep

ResMatches(logged, res) ==
    /\ logged.r = res.r /\ logged.model = res.model /\ logged.n = res.n /\ logged.list = res.list

TRet ==
    /\ IsEvent("ret") /\ Running
    /\ DReturn
    /\ ResMatches(Ev.res, result)
    /\ \A s \in Sinks : Ev.sinks[s] = sinkLog[s]
    /\ (cmd.name = "query" /\ result = ROk) => Ev.reply = QueryReply
    /\ (cmd.name = "srcquery" /\ result = ROk) => Ev.replies = Replies("drv")
    /\ Keep

TEnd ==
    /\ IsEvent("end") /\ Running
    /\ phase = "idle"
    /\ stage' = "ended"
    /\ UNCHANGED <<vars, exact>>

SinkPush(t, i) == i \in 1..Len(ms[t].subs) /\ IsSink(ms[t].subs[i].tgt) /\ Push(t, i)

Silent ==
    /\ Running
    /\ \/ Quiesce \/ AbortPanic
       \/ OpDone("drv")
       \/ \E t \in Tasks, i \in 1..8 : SinkPush(t, i)
       \/ ~exact /\ \E m \in Models : Pop(m)
       \/ ~exact /\ \E t \in Tasks, i \in 1..8 : i \in 1..Len(ms[t].subs) /\ ~IsSink(ms[t].subs[i].tgt) /\ Push(t, i)
    /\ UNCHANGED <<l, exact, stage>>

TraceNext == Reset \/ TCmd \/ TInitBegin \/ TInitEnd \/ TPop \/ THB \/ TOpStart \/ TPush \/ TOpDone \/ THE
             \/ TRet \/ TEnd \/ Silent

TraceSpec == TraceInit /\ [][TraceNext]_tvars

Track == IF l - 1 > TLCGet(1) THEN TLCSet(1, l - 1) ELSE TRUE

TraceAccepted ==
    LET n == TLCGet(1) IN
    IF n = Len(Rec) THEN TRUE
    ELSE /\ PrintT(<<"TRACE_REJECTED", n, ToJson(Rec[n + 1])>>)
         /\ FALSE
=============================================================================
