------------------------------ MODULE MpscQueue ------------------------------
(***************************************************************************)
(* The mailbox queue (nexosim/src/channel/queue.rs, after Vyukov's bounded *)
(* MPMC queue, specialised to one consumer) at the granularity of its      *)
(* atomic operations.  Positions and stamps are the integers of the code:  *)
(*                                                                         *)
(*     | sequence count | flag (1 bit) | buffer index |                    *)
(*                                                                         *)
(* with P = capacity.next_power_of_two() the value of the flag bit and     *)
(* R = 2P the sequence increment; the arithmetic of next_queue_pos, push,  *)
(* pop, close and len is transcribed, so that capacities that are not      *)
(* powers of two and capacity 1 go through the same code paths.            *)
(*                                                                         *)
(* Each producer executes a sequence of operations (push v, close, len),   *)
(* the consumer executes pop / release (drop of the message borrow) /      *)
(* close / len.  Every atomic load, CAS and store is one step; the         *)
(* non-atomic accesses to a slot's message cell are separate steps between *)
(* which other threads may run, and an invariant checks that no two        *)
(* threads are ever inside the same cell (data-race freedom under          *)
(* sequential consistency; the memory orderings are the business of        *)
(* RAMem).                                                                 *)
(***************************************************************************)
EXTENDS Naturals, Integers, Sequences, FiniteSets, TLC

CONSTANTS
    Cap,        \* capacity >= 1
    Producers,  \* set of producer ids
    ProdOps,    \* ProdOps[p]: sequence of ops [op |-> "push" | "close" | "len"]
    ConsOps,    \* sequence of consumer ops [op |-> "pop" | "release" | "close" | "len"]
    Sequential, \* TRUE: operations do not overlap (used to enumerate operation sequences)
    FreeOps,    \* TRUE: instead of following ProdOps / ConsOps every thread picks any operation of its alphabet
    MaxOps,     \* bound on the number of operations when FreeOps
    Nested      \* with Sequential: one push may be suspended between the reservation of its cell and its
                \* publication while other operations run to completion (the in-flight window, reproduced on the
                \* real queue by running those operations from inside the push's message closure)

RECURSIVE NPow2From(_, _)
NPow2From(n, p) == IF p >= n THEN p ELSE NPow2From(n, 2 * p)
P == NPow2From(Cap, 1)     \* closed-channel flag
R == 2 * P                 \* right_mask + 1

Idx(pos)   == pos % R                \* pos & right_mask
Flag(pos)  == (pos % R) >= P         \* pos & closed_channel_mask # 0
SeqPart(pos) == pos - (pos % R)        \* pos & !right_mask

(* next_queue_pos (the closed flag is clear) *)
NextPos(pos) == IF Idx(pos + 1) < Cap THEN pos + 1 ELSE SeqPart(pos) + R

Threads == Producers \cup {"cons"}

VARIABLES
    enq,      \* enqueue_pos
    deq,      \* dequeue_pos
    stamp,    \* stamp[i], i in 0..Cap-1
    cell,     \* cell[i]: "vacated" | "none" | <<"msg", v>>
    pc,       \* pc[t]: program counter inside the current operation ("idle" between operations)
    opi,      \* opi[t]: index of the current / next operation of t
    loc,      \* loc[t]: local variables of t
    inCell,   \* inCell[i]: set of threads currently accessing cell i non-atomically
    borrow,   \* the consumer's outstanding MessageBorrow: [idx, stamp] or NoBorrow
    hist,     \* completed operations [t, op, arg, ret], recorded for sequential histories only
    bad,      \* ghost: set of names of result-related properties found violated (see Done / CCheckClosed)
    closedDone, \* ghost: a close has completed
    pushedOk, \* pushedOk[p]: sequence of the values of p whose push returned Ok
    popped,   \* sequence of values popped
    nextVal,  \* nextVal[p]: number of the next value pushed by p
    lastRet   \* lastRet[t]: result of the last completed operation of t
vars == <<enq, deq, stamp, cell, pc, opi, loc, inCell, borrow, hist, bad, closedDone, pushedOk, popped, nextVal,
          lastRet>>

NoBorrow == [idx |-> -1, stamp |-> 0]
NoVal == <<"", 0>>
Vacated == [k |-> "vacated", v |-> NoVal, ok |-> TRUE]
Taken   == [k |-> "none", v |-> NoVal, ok |-> TRUE]
NoLoc == [e |-> 0, st |-> 0, v |-> 0, d |-> 0, quiet |-> FALSE, snap |-> {}, sawClosed |-> FALSE, inn |-> ""]

Ops(t) == IF t = "cons" THEN ConsOps ELSE ProdOps[t]
HasOp(t) == IF FreeOps THEN MaxOps = 0 \/ Len(hist) + Cardinality({u \in Threads : pc[u] # "idle"}) < MaxOps
            ELSE opi[t] <= Len(Ops(t))
Alphabet(t) == IF t = "cons" THEN {"pop", "release", "close", "len"} ELSE {"push", "close", "len"}
Choices(t) == IF FreeOps THEN Alphabet(t) ELSE {Ops(t)[opi[t]].op}

Init ==
    /\ enq = 0 /\ deq = 0
    /\ stamp = [i \in 0..(Cap - 1) |-> i]
    /\ cell = [i \in 0..(Cap - 1) |-> Vacated]
    /\ pc = [t \in Threads |-> "idle"]
    /\ opi = [t \in Threads |-> 1]
    /\ loc = [t \in Threads |-> NoLoc]
    /\ inCell = [i \in 0..(Cap - 1) |-> {}]
    /\ borrow = NoBorrow
    /\ hist = <<>> /\ popped = <<>> /\ bad = {} /\ closedDone = FALSE
    /\ pushedOk = [p \in Producers |-> <<>>]
    /\ nextVal = [p \in Producers |-> 1]
    /\ lastRet = [t \in Threads |-> <<"none", "", 0>>]

Value(p) == <<p, nextVal[p]>>

Accepted == UNION {{pushedOk[p][i] : i \in 1..Len(pushedOk[p])} : p \in Producers}

Done(t, op, arg, ret) ==
    /\ hist' = IF Sequential THEN Append(hist, [t |-> t, op |-> op, arg |-> arg, ret |-> ret, inn |-> loc[t].inn])
               ELSE hist
    /\ pc' = [pc EXCEPT ![t] = "idle"]
    /\ opi' = [opi EXCEPT ![t] = @ + 1]
    /\ closedDone' = (closedDone \/ op = "close")
    /\ lastRet' = [lastRet EXCEPT ![t] = ret]
    /\ bad' = bad
          \* a push that started after a close had completed must fail with Closed
          \cup (IF op = "push" /\ loc[t].sawClosed /\ ret[1] # "closed" THEN {"ClosedRejects"} ELSE {})
          \* a push fails with Closed only if the queue was closed
          \cup (IF op = "push" /\ ret[1] = "closed" /\ ~Flag(enq) THEN {"ClosedOnlyIfClosed"} ELSE {})
          \* a pop that started while no push was in flight finds nothing only if every message accepted
          \* before it started has been popped
          \cup (IF op = "pop" /\ ret[1] \in {"empty", "closed"} /\ loc[t].quiet
                    /\ ~(loc[t].snap \subseteq {popped[i] : i \in 1..Len(popped)})
                 THEN {"NoLoss"} ELSE {})
          \* Closed is returned only when the queue is closed and every accepted message has been popped
          \cup (IF op = "pop" /\ ret[1] = "closed"
                    /\ ~(Flag(enq) /\ Accepted \subseteq {popped[i] : i \in 1..Len(popped)})
                 THEN {"ClosedWhenDrained"} ELSE {})

Suspended == {u \in Threads : pc[u] = "p_write" /\ loc[u].inn = ""}
NoOverlap(t) ==
    Sequential =>
        \/ \A u \in Threads \ {t} : pc[u] = "idle"
        \/ /\ Nested /\ Cardinality(Suspended) = 1
           /\ \A u \in Threads \ {t} : pc[u] = "idle" \/ u \in Suspended

(* An operation starts. *)
Start(t) ==
    /\ pc[t] = "idle" /\ HasOp(t) /\ NoOverlap(t)
    /\ \E o \in Choices(t) :
       \* the borrow of the previous message is given back before the next pop (the borrow holds `&mut` the consumer)
       /\ (o = "pop" => borrow = NoBorrow)
       /\ pc' = [pc EXCEPT ![t] = IF o = "push" THEN "p_load_enq"
                                ELSE IF o = "pop" THEN "c_load"
                                ELSE IF o = "release" THEN "r_write"
                                ELSE IF o = "close" THEN "x_close"
                                ELSE "l_load_enq"]
    /\ loc' = [loc EXCEPT ![t] = [NoLoc EXCEPT !.v = IF t = "cons" THEN 0 ELSE nextVal[t], !.quiet = \A p \in Producers : pc[p] = "idle",
                                               !.snap = Accepted, !.sawClosed = closedDone,
                                               !.inn = IF Suspended = {} THEN ""
                                                       ELSE CHOOSE u \in Suspended : TRUE]]
    /\ UNCHANGED <<enq, deq, stamp, cell, opi, inCell, borrow, hist, bad, closedDone, pushedOk, popped, nextVal, lastRet>>

-----------------------------------------------------------------------------
(* push *)
PLoadEnq(p) ==
    /\ pc[p] = "p_load_enq"
    /\ loc' = [loc EXCEPT ![p].e = enq]
    /\ pc' = [pc EXCEPT ![p] = "p_check"]
    /\ UNCHANGED <<enq, deq, stamp, cell, opi, inCell, borrow, hist, bad, closedDone, pushedOk, popped, nextVal, lastRet>>

(* closed test on the local copy, then the Acquire load of the slot's stamp *)
PCheck(p) ==
    /\ pc[p] = "p_check"
    /\ IF Flag(loc[p].e)
       THEN /\ Done(p, "push", Value(p), <<"closed", "", 0>>)
            /\ nextVal' = [nextVal EXCEPT ![p] = @ + 1]
            /\ UNCHANGED loc
       ELSE /\ loc' = [loc EXCEPT ![p].st = stamp[Idx(loc[p].e)]]
            /\ pc' = [pc EXCEPT ![p] = "p_cmp"]
            /\ UNCHANGED <<opi, hist, bad, closedDone, nextVal, lastRet>>
    /\ UNCHANGED <<enq, deq, stamp, cell, inCell, borrow, pushedOk, popped>>

PCmp(p) ==
    /\ pc[p] = "p_cmp"
    /\ LET delta == loc[p].st - loc[p].e IN
       IF delta = 0
       THEN \* compare_exchange on the enqueue position
            IF enq = loc[p].e
            THEN /\ enq' = NextPos(loc[p].e)
                 /\ pc' = [pc EXCEPT ![p] = "p_write"]
                 /\ inCell' = [inCell EXCEPT ![Idx(loc[p].e)] = @ \cup {p}]
                 /\ UNCHANGED <<loc, opi, hist, bad, closedDone, nextVal, lastRet>>
            ELSE /\ loc' = [loc EXCEPT ![p].e = enq]
                 /\ pc' = [pc EXCEPT ![p] = "p_check"]
                 /\ UNCHANGED <<enq, inCell, opi, hist, bad, closedDone, nextVal, lastRet>>
       ELSE IF delta < 0
       THEN /\ Done(p, "push", Value(p), <<"full", "", 0>>)
            /\ nextVal' = [nextVal EXCEPT ![p] = @ + 1]
            /\ UNCHANGED <<enq, loc, inCell>>
       ELSE \* raced with another producer: reload the enqueue position
            /\ loc' = [loc EXCEPT ![p].e = enq]
            /\ pc' = [pc EXCEPT ![p] = "p_check"]
            /\ UNCHANGED <<enq, inCell, opi, hist, bad, closedDone, nextVal, lastRet>>
    /\ UNCHANGED <<deq, stamp, cell, borrow, pushedOk, popped>>

(* the message is written into the cell (non-atomic) *)
PWrite(p) ==
    /\ pc[p] = "p_write"
    \* a suspended push resumes once the operations nested in it are over
    /\ (Sequential /\ loc[p].inn = "") => \A u \in Threads \ {p} : pc[u] = "idle"
    /\ cell' = [cell EXCEPT ![Idx(loc[p].e)] = [k |-> "msg", v |-> Value(p), ok |-> (@.k = "vacated")]]
    /\ inCell' = [inCell EXCEPT ![Idx(loc[p].e)] = @ \ {p}]
    /\ pc' = [pc EXCEPT ![p] = "p_stamp"]
    /\ UNCHANGED <<enq, deq, stamp, opi, loc, borrow, hist, bad, closedDone, pushedOk, popped, nextVal, lastRet>>

(* Release store of the stamp: the message becomes visible to the consumer *)
PStamp(p) ==
    /\ pc[p] = "p_stamp"
    /\ stamp' = [stamp EXCEPT ![Idx(loc[p].e)] = loc[p].st + 1]
    /\ Done(p, "push", Value(p), <<"ok", "", 0>>)
    /\ pushedOk' = [pushedOk EXCEPT ![p] = Append(@, Value(p))]
    /\ nextVal' = [nextVal EXCEPT ![p] = @ + 1]
    /\ UNCHANGED <<enq, deq, cell, loc, inCell, borrow, popped>>

-----------------------------------------------------------------------------
(* pop (consumer only) *)
CLoad ==
    /\ pc["cons"] = "c_load"
    /\ LET d == deq
           st == stamp[Idx(d)]
       IN  /\ loc' = [loc EXCEPT !["cons"] = [@ EXCEPT !.d = d, !.st = st]]
           /\ pc' = [pc EXCEPT !["cons"] = IF d # st THEN "c_store_deq" ELSE "c_check_closed"]
    /\ UNCHANGED <<enq, deq, stamp, cell, opi, inCell, borrow, hist, bad, closedDone, pushedOk, popped, nextVal, lastRet>>

CStoreDeq ==
    /\ pc["cons"] = "c_store_deq"
    /\ deq' = NextPos(loc["cons"].d)
    /\ inCell' = [inCell EXCEPT ![Idx(loc["cons"].d)] = @ \cup {"cons"}]
    /\ pc' = [pc EXCEPT !["cons"] = "c_take"]
    /\ UNCHANGED <<enq, stamp, cell, opi, loc, borrow, hist, bad, closedDone, pushedOk, popped, nextVal, lastRet>>

(* the message is moved out of the cell (non-atomic); the slot stays borrowed *)
CTake ==
    /\ pc["cons"] = "c_take"
    /\ LET i == Idx(loc["cons"].d)
           c == cell[i]
       IN  /\ cell' = [cell EXCEPT ![i] = Taken]
           /\ inCell' = [inCell EXCEPT ![i] = @ \ {"cons"}]
           /\ borrow' = [idx |-> i, stamp |-> loc["cons"].st + (R - 1)]
           /\ popped' = Append(popped, IF c.k # "msg" \/ ~c.ok THEN <<"BAD", 0>> ELSE c.v)
           /\ Done("cons", "pop", NoVal, IF c.k # "msg" \/ ~c.ok THEN <<"BAD", "", 0>> ELSE <<"value", c.v[1], c.v[2]>>)
    /\ UNCHANGED <<enq, deq, stamp, loc, pushedOk, nextVal>>

CCheckClosed ==
    /\ pc["cons"] = "c_check_closed"
    /\ Done("cons", "pop", NoVal, IF enq = loc["cons"].d + P /\ ~Flag(loc["cons"].d) THEN <<"closed", "", 0>> ELSE <<"empty", "", 0>>)
    /\ UNCHANGED <<enq, deq, stamp, cell, loc, inCell, borrow, pushedOk, popped, nextVal>>

(* drop of the MessageBorrow: the vacated box goes back into the cell, then the slot is marked empty *)
RWrite ==
    /\ pc["cons"] = "r_write"
    /\ IF borrow = NoBorrow
       THEN /\ Done("cons", "release", NoVal, <<"none", "", 0>>)
            /\ UNCHANGED <<cell, inCell>>
       ELSE /\ cell' = [cell EXCEPT ![borrow.idx] = Vacated]
            /\ inCell' = inCell
            /\ pc' = [pc EXCEPT !["cons"] = "r_stamp"]
            /\ UNCHANGED <<opi, hist, bad, closedDone, lastRet>>
    /\ UNCHANGED <<enq, deq, stamp, loc, borrow, pushedOk, popped, nextVal>>

RStamp ==
    /\ pc["cons"] = "r_stamp"
    /\ stamp' = [stamp EXCEPT ![borrow.idx] = borrow.stamp]
    /\ borrow' = NoBorrow
    /\ Done("cons", "release", NoVal, <<"ok", "", 0>>)
    /\ UNCHANGED <<enq, deq, cell, loc, inCell, pushedOk, popped, nextVal>>

-----------------------------------------------------------------------------
(* close (fetch_or of the flag) and len (two relaxed loads) *)
XClose(t) ==
    /\ pc[t] = "x_close"
    /\ enq' = IF Flag(enq) THEN enq ELSE enq + P
    /\ Done(t, "close", NoVal, <<"ok", "", 0>>)
    /\ UNCHANGED <<deq, stamp, cell, loc, inCell, borrow, pushedOk, popped, nextVal>>

LLoadEnq(t) ==
    /\ pc[t] = "l_load_enq"
    /\ loc' = [loc EXCEPT ![t].e = enq]
    /\ pc' = [pc EXCEPT ![t] = "l_load_deq"]
    /\ UNCHANGED <<enq, deq, stamp, cell, opi, inCell, borrow, hist, bad, closedDone, pushedOk, popped, nextVal, lastRet>>

LenOf(e, d) ==
    LET ei == e % P      \* & (right_mask >> 1)
        di == d % P
        carry == IF SeqPart(e) # SeqPart(d) THEN 1 ELSE 0
    IN  (ei + carry * Cap) - di

LLoadDeq(t) ==
    /\ pc[t] = "l_load_deq"
    /\ Done(t, "len", NoVal, <<"len", "", LenOf(loc[t].e, deq)>>)
    /\ UNCHANGED <<enq, deq, stamp, cell, loc, inCell, borrow, pushedOk, popped, nextVal>>

-----------------------------------------------------------------------------
Next ==
    \/ \E t \in Threads : Start(t) \/ XClose(t) \/ LLoadEnq(t) \/ LLoadDeq(t)
    \/ \E p \in Producers : PLoadEnq(p) \/ PCheck(p) \/ PCmp(p) \/ PWrite(p) \/ PStamp(p)
    \/ CLoad \/ CStoreDeq \/ CTake \/ CCheckClosed \/ RWrite \/ RStamp

Spec == Init /\ [][Next]_vars

-----------------------------------------------------------------------------
(* Properties (C12) *)

Range(s) == {s[i] : i \in 1..Len(s)}

PoppedSet == Range(popped)

(* Messages currently held: accepted and not yet popped. *)
Held == Cardinality(Accepted \ PoppedSet)

(* never more messages than the capacity *)
Bounded == Cardinality({i \in 0..(Cap - 1) : cell[i].k = "msg"}) <= Cap /\ Held <= Cap

(* no slot's message cell is ever accessed by two threads at once, and the cell holds what the code expects *)
NoCellRace == \A i \in 0..(Cap - 1) : Cardinality(inCell[i]) <= 1
NoUnreachable == \A i \in 1..Len(popped) : popped[i][1] # "BAD"
WriteIntoVacated == \A p \in Producers : pc[p] = "p_write" => cell[Idx(loc[p].e)].k = "vacated"

(* each message is popped at most once, and only messages that were pushed *)
PoppedOnce == \A i, j \in 1..Len(popped) : i # j => popped[i] # popped[j]
NothingInvented == \A i \in 1..Len(popped) : popped[i][1] \in Producers /\ popped[i][2] < nextVal[popped[i][1]] + 1

(* the messages of one producer are popped in the order they were pushed *)
PerProducerFifo ==
    \A i, j \in 1..Len(popped) : (i < j /\ popped[i][1] = popped[j][1]) => popped[i][2] < popped[j][2]

(* no accepted message is skipped: a popped message of p is the oldest of p's accepted messages not yet popped *)
NoSkip ==
    \A j \in 1..Len(popped) : \A p \in Producers : \A k \in 1..Len(pushedOk[p]) :
        (p = popped[j][1] /\ pushedOk[p][k][2] < popped[j][2]) => \E i \in 1..j : popped[i] = pushedOk[p][k]

AllIdle == \A t \in Threads : pc[t] = "idle"

(* the reported length is exact whenever no operation is in flight *)
LenWhenQuiescent == AllIdle => LenOf(enq, deq) = Held

(* results of completed operations (see Done) *)
ResultsOk == bad = {}

(* when everything is finished and the consumer drained the queue, nothing accepted was lost *)
Finished == AllIdle /\ \A t \in Threads : ~HasOp(t)
=============================================================================
