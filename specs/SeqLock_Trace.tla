---------------------------- MODULE SeqLock_Trace ----------------------------
(***************************************************************************)
(* Run-time side of C15: reader threads read the simulation time through a *)
(* Scheduler handle while the main thread steps through the distinctive    *)
(* times (k s, k ns), k = 1, 2, ...  Each read is logged with the number   *)
(* of updates known to be complete before it started (lo) and the number   *)
(* of updates started before it ended (hi), both read from counters the    *)
(* writer maintains around its stepping calls.  A read (a, b) is a         *)
(* behaviour of the sequentially consistent instance of SeqLock iff it is  *)
(* not torn, lies in [lo, hi] and does not go backwards for its reader.    *)
(***************************************************************************)
EXTENDS Naturals, Sequences, TLC, Json, IOUtils

Rec == ndJsonDeserialize(IOEnv.TRACE)

VARIABLES l, last   \* last[r]: last version observed by reader r

Init == l = 1 /\ last = [r \in {} |-> 0] /\ TLCSet(1, 0)

Ev == Rec[l]

ReadOk ==
    /\ l <= Len(Rec) /\ Ev.ev = "read"
    /\ Ev.a = Ev.b                                   \* NotTorn
    /\ Ev.a >= Ev.lo /\ Ev.a <= Ev.hi                \* a value the simulation had at some point of the read
    /\ Ev.a >= (IF Ev.r \in DOMAIN last THEN last[Ev.r] ELSE 0)   \* Monotone
    /\ last' = (Ev.r :> Ev.a) @@ last
    /\ l' = l + 1

Reset ==
    /\ l <= Len(Rec) /\ Ev.ev = "reset"
    /\ last' = [r \in {} |-> 0]
    /\ l' = l + 1

Next == ReadOk \/ Reset
Spec == Init /\ [][Next]_<<l, last>>

Track == IF l - 1 > TLCGet(1) THEN TLCSet(1, l - 1) ELSE TRUE

TraceAccepted ==
    LET n == TLCGet(1) IN
    IF n = Len(Rec) THEN TRUE
    ELSE /\ PrintT(<<"TRACE_REJECTED", n, ToJson(Rec[n + 1])>>)
         /\ FALSE
=============================================================================
