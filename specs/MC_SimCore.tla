----------------------------- MODULE MC_SimCore -----------------------------
(***************************************************************************)
(* Bounded instance of SimCore for TLC: finite command alphabets, the      *)
(* properties of C01 C07 C08 C09 C10 C11 C18 as invariants, and a history  *)
(* of driver commands from which behaviours are exported for replay.       *)
(***************************************************************************)
EXTENDS SimCore_Props, Json

CONSTANTS
    MaxCmds,     \* maximal number of driver commands in a behaviour
    MaxTime,     \* horizon
    MaxQueue,    \* maximal number of queued actions
    SchedCls,    \* subset of {"ev", "act"}
    EvTargets,   \* targets for cls "ev": models, "DEAD", "ORPHAN"
    Deltas,      \* relative deadlines offered to the driver
    AbsTimes,    \* absolute deadlines offered to the driver
    Kinds,       \* subset of {"once","keyed","periodic","kperiodic"}
    Periods,     \* periods offered (0 is the invalid one)
    SlotSet,     \* key slots used by the driver
    DrvProgs,    \* programs the driver may put in events
    UntilDeltas, \* relative targets of step_until
    UntilAbs,    \* absolute targets of step_until
    ProcKinds,   \* subset of {"event","query","action"}
    ProcTargets, \* targets of process_event / process_query
    Lags,        \* lags the clock may report
    Emit         \* TRUE: print one JSON line per finished behaviour

VARIABLE hist    \* sequence of driver commands issued so far

mcvars == <<vars, hist>>

MCInit == Init /\ hist = <<>>

C(name, f) == [c |-> name] @@ f

SrcIds == 1..Len(SrcConn)

DriverStep ==
    /\ Len(hist) < MaxCmds
    /\ phase = "idle"
    /\ \/ \E cls \in SchedCls, abs \in BOOLEAN, kind \in Kinds, slot \in SlotSet, prog \in DrvProgs :
          \E tgt \in (IF cls = "ev" THEN EvTargets ELSE SrcIds) :
          \E d \in (IF abs THEN AbsTimes ELSE Deltas) :
          \E per \in (IF IsPeriodicKind(kind) THEN Periods ELSE {0}) :
          \E out \in {"ok", "invalid_time", "null_period"} :
             /\ (IsKeyedKind(kind) \/ slot = CHOOSE x \in SlotSet : TRUE)
             /\ DSchedule(cls, tgt, abs, d, kind, per, slot, prog, out)
             /\ hist' = Append(hist, [c |-> "sched", cls |-> cls, target |-> tgt, abs |-> abs, d |-> d,
                                      kind |-> kind, per |-> per, slot |-> slot, prog |-> prog])
       \/ \E slot \in SlotSet :
             /\ slots[slot] # 0
             /\ DCancel(slot)
             /\ hist' = Append(hist, [c |-> "cancel", slot |-> slot])
       \/ /\ DStep
          /\ hist' = Append(hist, [c |-> "step"])
       \/ \E abs \in BOOLEAN : \E d \in (IF abs THEN UntilAbs ELSE UntilDeltas) :
             /\ DStepUntil(abs, d)
             /\ hist' = Append(hist, [c |-> "step_until", abs |-> abs, d |-> d])
       \/ \E kind \in ProcKinds, prog \in DrvProgs :
          \E tgt \in (IF kind = "action" THEN SrcIds ELSE ProcTargets) :
             /\ DProcess(kind, tgt, prog)
             /\ hist' = Append(hist, [c |-> "process", kind |-> kind, target |-> tgt, prog |-> prog])

InnerStep ==
    /\ \/ Pull
       \/ \E lag \in Lags : DoSync(lag)
       \/ SkipSameSync
       \/ \E m \in Models, s \in Senders : HSkip(m, s) \/ HBegin(m, s)
       \/ \E m \in Models, out \in {"ok", "invalid_time", "null_period"} : HOp(m, out)
       \/ Quiesce
       \/ \E e \in pendErr : Abort(e)
       \/ DReturn
    /\ UNCHANGED hist

MCNext == DriverStep \/ InnerStep

MCSpec == MCInit /\ [][MCNext]_mcvars

Bounded ==
    /\ now <= MaxTime
    /\ Cardinality(queue) <= MaxQueue
    /\ \A a \in queue : a.time <= MaxTime + 3

-----------------------------------------------------------------------------
(* Behaviour export: one JSON line per maximal behaviour. *)
Finished == Len(hist) = MaxCmds /\ phase = "idle"

EmitBehaviour ==
    (Emit /\ Finished) => PrintT(<<"BEHAVIOUR", ToJson(hist)>>)

=============================================================================
