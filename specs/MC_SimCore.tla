----------------------------- MODULE MC_SimCore -----------------------------
(***************************************************************************)
(* Bounded instance of SimCore for TLC: finite command alphabets, the      *)
(* properties of C01 C07 C08 C09 C10 C11 C18 as invariants, and a history  *)
(* of driver commands from which behaviours are exported for replay.       *)
(***************************************************************************)
EXTENDS SimCore_Props, Json

CONSTANTS
    MaxCmds,     \* maximal number of driver commands in a behaviour
    MaxTime,     \* horizon
    MaxQueue,    \* maximal number of queued actions
    SchedCmds,   \* set of scheduling commands [cls, target, abs, d, kind, per, slot, prog]
    CancelSlots, \* key slots the driver may cancel
    StepOn,      \* TRUE: step() is in the alphabet
    Untils,      \* set of step_until commands [abs, d]
    Procs,       \* set of process commands [kind, target, prog]
    Lags,        \* lags the clock may report
    Emit         \* TRUE: print one JSON line per finished behaviour

VARIABLE hist    \* sequence of driver commands issued so far

mcvars == <<vars, hist>>

MCInit == Init /\ hist = <<>>

DriverStep ==
    /\ Len(hist) < MaxCmds
    /\ phase = "idle"
    /\ \/ \E c \in SchedCmds : \E out \in {"ok", "invalid_time", "null_period"} :
             /\ DSchedule(c.cls, c.target, c.abs, c.d, c.kind, c.per, c.slot, c.prog, out)
             /\ hist' = Append(hist, [c |-> "sched"] @@ c)
       \/ \E slot \in CancelSlots :
             /\ slots[slot] # 0
             /\ DCancel(slot)
             /\ hist' = Append(hist, [c |-> "cancel", slot |-> slot])
       \/ /\ StepOn
          /\ DStep
          /\ hist' = Append(hist, [c |-> "step"])
       \/ \E u \in Untils :
             /\ DStepUntil(u.abs, u.d)
             /\ hist' = Append(hist, [c |-> "step_until"] @@ u)
       \/ \E p \in Procs :
             /\ DProcess(p.kind, p.target, p.prog)
             /\ hist' = Append(hist, [c |-> "process"] @@ p)

InnerStep ==
    /\ \/ Pull
       \/ \E lag \in Lags : DoSync(lag)
       \/ SkipSameSync
       \/ \E m \in Models, s \in Senders : HSkip(m, s) \/ HTake(m, s)
       \/ \E m \in Models : HStart(m)
       \/ \E m \in Models, out \in {"ok", "invalid_time", "null_period"} : HOp(m, out)
       \/ Quiesce
       \/ \E e \in pendErr : Abort(e)
       \/ DReturn
    /\ UNCHANGED hist

MCNext == DriverStep \/ InnerStep

MCSpec == MCInit /\ [][MCNext]_mcvars

Bounded ==
    /\ now <= MaxTime
    /\ Cardinality(queue) <= MaxQueue
    /\ \A a \in queue : a.time <= MaxTime + 3

-----------------------------------------------------------------------------
(* Behaviour export: one JSON line per maximal behaviour. *)
Finished == Len(hist) = MaxCmds /\ phase = "idle"

EmitBehaviour ==
    (Emit /\ Finished) => PrintT(<<"BEHAVIOUR", ToJson(hist)>>)

=============================================================================
