------------------------- MODULE CachedRwLock_Trace -------------------------
(* Trace validation for CachedRwLock: real threads, each owning one clone of an Output, connect fresh sinks and     *)
(* send fresh values concurrently (harness engine `clonesconc`).  Logged: the start and the end of every operation  *)
(* (cs/ce, ss/se) with, for a send, the set of sinks that received the value; the lock and epoch steps in between    *)
(* are silent and placed by TLC.  A recorded execution is accepted iff it is a behaviour of CachedRwLock.            *)
EXTENDS CachedRwLock, Json, IOUtils

Rec == ndJsonDeserialize(IOEnv.TRACE)

VARIABLE l
tvars == <<vars, l>>

Ev == Rec[l]
IsEvent(e) == l <= Len(Rec) /\ Rec[l].ev = e /\ l' = l + 1

TraceInit == Init /\ l = 1 /\ TLCSet(1, 0)

Reset ==
    /\ IsEvent("reset")
    /\ \A c \in Clones : pc[c] = "idle"
    /\ shared' = [val |-> {}, epoch |-> 0] /\ lock' = "none"
    /\ cache' = [c \in Clones |-> [val |-> {}, epoch |-> 0]]
    /\ loc' = [c \in Clones |-> [id |-> 0, e |-> 0, must |-> {}, res |-> {}]]
    /\ nops' = 0 /\ nextId' = 1 /\ done' = {} /\ started' = {}
    /\ UNCHANGED pc

TConnectStart == IsEvent("cs") /\ Ev.c \in Clones /\ Ev.id = nextId /\ ConnectStart(Ev.c)
TConnectEnd   == IsEvent("ce") /\ Ev.c \in Clones /\ ConnectEnd(Ev.c)
TSendStart    == IsEvent("ss") /\ Ev.c \in Clones /\ SendStart(Ev.c)
TSendEnd ==
    /\ IsEvent("se") /\ Ev.c \in Clones
    /\ ~Ev.dup
    /\ loc[Ev.c].res = {Ev.res[i] : i \in 1..Len(Ev.res)}
    /\ SendEnd(Ev.c)

Silent ==
    /\ \E c \in Clones :
          \/ WLock(c) \/ WBump(c) \/ WBump2(c) \/ WMutate(c) \/ WUnlock(c)
          \/ RCheck(c) \/ RLock(c) \/ RCopy(c) \/ REpoch(c) \/ RUnlock(c) \/ RUse(c)
    /\ UNCHANGED l

TraceNext == Reset \/ TConnectStart \/ TConnectEnd \/ TSendStart \/ TSendEnd \/ Silent

TraceSpec == TraceInit /\ [][TraceNext]_tvars

Track == IF l - 1 > TLCGet(1) THEN TLCSet(1, l - 1) ELSE TRUE

TraceAccepted ==
    LET n == TLCGet(1) IN
    IF n = Len(Rec) THEN TRUE
    ELSE /\ PrintT(<<"TRACE_REJECTED", n, ToJson(Rec[n + 1])>>)
         /\ FALSE
=============================================================================
