------------------------------ MODULE Pool_Trace ------------------------------
(***************************************************************************)
(* Trace validation for Pool: scripted futures run on the real thread pool *)
(* (harness/src/pool.rs).  Every recorded event is a *marker*: a hook      *)
(* point of the pool protocol reached by a worker or by the executor       *)
(* thread, the beginning of a poll, the moment before an effect, the end   *)
(* of a poll, a spawn, the call to run() and its result.  No access to     *)
(* shared memory is logged: all of them are silent steps here and TLC      *)
(* searches for an interleaving of the threads' steps in which every       *)
(* marker is passed in the recorded order with the recorded values (folded *)
(* count, task popped or stolen, result of run()).  The invariants of Pool *)
(* are evaluated in every state of the matched behaviour.                  *)
(***************************************************************************)
EXTENDS Pool, Json, IOUtils

CONSTANT Markers    \* TRUE: the hook-point events of the trace are matched; FALSE: they were removed from the trace and
                    \* the hook points are passed silently (only what the tasks and the caller of run() observe is matched)

Rec == ndJsonDeserialize(IOEnv.TRACE)

VARIABLES l, got, dropreq

tvars == <<vars, l, got, dropreq>>

Ev == Rec[l]
IsEvent(e) == l <= Len(Rec) /\ Rec[l].ev = e /\ l' = l + 1

TraceInit == Init /\ l = 1 /\ got = [w \in Workers |-> 0] /\ dropreq = FALSE /\ TLCSet(1, 0)

Reset ==
    /\ IsEvent("reset")
    /\ active' = Workers /\ searching' = 0 /\ injector' = [b |-> <<>>, empty |-> TRUE]
    /\ localq' = [w \in Workers |-> <<>>] /\ fast' = [w \in Workers |-> None]
    /\ token' = [w \in Workers |-> FALSE] /\ mtoken' = FALSE
    /\ tcount' = [w \in Workers |-> 0] /\ gcount' = 0 /\ abort' = FALSE /\ panicslot' = None
    /\ wpc' = [w \in Workers |-> "top"] /\ wl' = [w \in Workers |-> WL0]
    /\ mpc' = "new_park" /\ ml' = [a |-> {}, f |-> 0, run |-> 0]
    /\ tstate' = [t \in Tasks |-> "unspawned"] /\ rewake' = [t \in Tasks |-> FALSE] /\ npoll' = [t \in Tasks |-> 0]
    /\ inflight' = 0 /\ results' = <<>> /\ exited' = {}
    /\ got' = [w \in Workers |-> 0] /\ dropreq' = FALSE

PcOf(p, b) ==
    CASE p = 20 -> "p20" [] p = 21 -> "p21" [] p = 22 -> "p22" [] p = 23 -> "p23"
      [] p = 24 -> (IF b = 0 THEN "p24a" ELSE "p24b")
      [] p = 25 -> "p25" [] p = 26 -> "p26" [] p = 27 -> "p27" [] p = 28 -> "p28" [] p = 29 -> "p29"
      [] p = 35 -> "p35" [] p = 36 -> "p36" [] OTHER -> "none"

(* a worker passes a hook point *)
TPt ==
    /\ IsEvent("pt")
    /\ Ev.w \in Workers
    /\ wpc[Ev.w] = PcOf(Ev.p, Ev.b)
    /\ Ev.p = 26 => wl[Ev.w].folded = Ev.b
    /\ Ev.p = 27 => wl[Ev.w].cur = Ev.b
    /\ Ev.p = 36 => fast[Ev.w] = Ev.b
    /\ WPoint(Ev.w)
    /\ UNCHANGED <<got, dropreq>>

(* markers logged by the task itself *)
TPb ==
    /\ IsEvent("pb")
    /\ Ev.w \in Workers
    /\ wpc[Ev.w] = "effect" /\ got[Ev.w] = 0 /\ wl[Ev.w].ei = 1
    /\ wl[Ev.w].cur = Ev.t /\ npoll[Ev.t] = Ev.k
    /\ got' = [got EXCEPT ![Ev.w] = 1]
    /\ UNCHANGED <<vars, dropreq>>

TEb ==
    /\ IsEvent("eb")
    /\ Ev.w \in Workers
    /\ wpc[Ev.w] = "effect" /\ got[Ev.w] = Ev.i /\ wl[Ev.w].ei = Ev.i
    /\ wl[Ev.w].cur = Ev.t
    /\ Ev.i <= Len(CurPoll(Ev.t).eff)
    /\ got' = [got EXCEPT ![Ev.w] = Ev.i + 1]
    /\ UNCHANGED <<vars, dropreq>>

TPe ==
    /\ IsEvent("pe")
    /\ Ev.w \in Workers
    /\ wpc[Ev.w] = "effect" /\ got[Ev.w] = wl[Ev.w].ei
    /\ wl[Ev.w].cur = Ev.t /\ npoll[Ev.t] = Ev.k
    /\ wl[Ev.w].ei = Len(CurPoll(Ev.t).eff) + 1
    /\ got' = [got EXCEPT ![Ev.w] = @ + 1]
    /\ UNCHANGED <<vars, dropreq>>

(* markers of the executor thread *)
TNew ==
    /\ IsEvent("new")
    /\ mpc = "out" /\ ml.run = 0
    /\ UNCHANGED <<vars, got, dropreq>>

TSpawn ==
    /\ IsEvent("spawn")
    /\ tstate[Ev.t] = "unspawned"
    /\ MSpawn
    /\ tstate'[Ev.t] = "queued"
    /\ UNCHANGED <<got, dropreq>>

TRun ==
    /\ IsEvent("run")
    /\ MRun
    /\ ml'.run = Ev.k
    /\ UNCHANGED <<got, dropreq>>

TMpt ==
    /\ IsEvent("mpt")
    /\ mpc = (IF Ev.p = 30 THEN "p30" ELSE "p31")
    /\ MPoint
    /\ UNCHANGED <<got, dropreq>>

TRet ==
    /\ IsEvent("ret")
    /\ mpc \in {"out", "dead"}
    /\ Len(results) = Ev.k
    /\ results[Ev.k].r = Ev.r
    /\ Ev.r = "unprocessed" => results[Ev.k].n = Ev.n
    /\ UNCHANGED <<vars, got, dropreq>>

TDrop ==
    /\ IsEvent("drop")
    /\ ~dropreq
    /\ dropreq' = TRUE
    /\ UNCHANGED <<vars, got>>

TDropped ==
    /\ IsEvent("dropped")
    /\ mpc = "dropped"
    /\ UNCHANGED <<vars, got, dropreq>>

(* everything else is inferred *)
SilentWorker(w) ==
    \/ /\ \/ WTop(w) \/ WDeact(w) \/ WLateFold(w) \/ WChkInj(w) \/ WSetAll(w) \/ WUnparkMain(w) \/ WPark(w)
          \/ WAbortChk(w) \/ WSearchFlag(w) \/ WPopBucket(w) \/ WPopFlag(w) \/ WSteal(w) \/ WRetry(w) \/ WGiveUp(w) \/ WEndSearch(w)
          \/ WPop(w) \/ WPopped(w) \/ WSchedChk(w) \/ WArTry(w) \/ WArBegin(w) \/ WArUnpark(w) \/ WHandOver(w)
          \/ WRegPanic(w) \/ WPActAll(w) \/ WPUnpark(w) \/ WExit(w)
       /\ UNCHANGED got
    \/ /\ ~Markers
       /\ WPoint(w)
       /\ UNCHANGED got
    \/ /\ WPollBegin(w)
       /\ got' = [got EXCEPT ![w] = 0]
    \/ /\ got[w] = wl[w].ei + 1
       /\ WEffect(w)
       /\ UNCHANGED got

SilentMain ==
    \/ MNewPark \/ MArTry \/ MArBegin \/ MArUnpark \/ MLoop \/ MRead \/ MPark \/ MJoined
    \/ (dropreq /\ MDrop)
    \/ (~Markers /\ MPoint)

Silent ==
    /\ l <= Len(Rec)
    /\ \/ SilentMain /\ UNCHANGED got
       \/ \E w \in Workers : SilentWorker(w)
    /\ UNCHANGED <<l, dropreq>>

TraceNext ==
    \/ Reset \/ TPt \/ TPb \/ TEb \/ TPe \/ TNew \/ TSpawn \/ TRun \/ TMpt \/ TRet \/ TDrop \/ TDropped
    \/ Silent

TraceSpec == TraceInit /\ [][TraceNext]_tvars

Track == IF l - 1 > TLCGet(1) THEN TLCSet(1, l - 1) ELSE TRUE

TraceAccepted ==
    LET n == TLCGet(1) IN
    IF n = Len(Rec) THEN TRUE
    ELSE /\ PrintT(<<"TRACE_REJECTED", n, ToJson(Rec[n + 1])>>)
         /\ FALSE
=============================================================================
