---------------------------- MODULE CachedRwLock ----------------------------
(***************************************************************************)
(* util/cached_rw_lock.rs, the mechanism behind "clones of a port share    *)
(* one connection list" (C14), at the granularity of its lock operations   *)
(* and epoch loads/stores.  PortClones.tla states the property on          *)
(* sequential histories of connect / send; here connect() on one clone     *)
(* runs concurrently with send() on others:                                *)
(*                                                                         *)
(*   shared   [val, epoch] behind a mutex (holder `lock`)                   *)
(*   cache[c] [val, epoch] private to clone c                               *)
(*                                                                         *)
(*   connect(c, id) = write():  lock; epoch := epoch + 1; (guard) val :=   *)
(*                    val + id; unlock                                      *)
(*   send(c) = write_scratchpad(): if epoch # cache.epoch then lock;       *)
(*                    cache.val := val; cache.epoch := epoch; unlock;      *)
(*                    then broadcast to cache.val                          *)
(*                                                                         *)
(* Interleaving semantics (the epoch accesses are Relaxed in the code: a   *)
(* send that does not happen after a connect may miss it, which the        *)
(* property allows; one that does, sees the epoch by coherence).           *)
(*                                                                         *)
(* Structural parameters, extracted from the source by the check:          *)
(*   BumpUnderLock     write() takes the lock before it bumps the epoch    *)
(*   RefreshUnderLock  the refresh copies the value and re-reads the epoch *)
(*                     while holding the lock                              *)
(***************************************************************************)
EXTENDS Naturals, Sequences, FiniteSets, TLC

CONSTANTS
    Clones,            \* set of clone ids
    MaxOps,            \* bound on the number of operations started
    MaxConnects,       \* bound on the number of connects
    BumpUnderLock,
    RefreshUnderLock

VARIABLES shared, lock, cache, pc, loc, nops, nextId, done, started

vars == <<shared, lock, cache, pc, loc, nops, nextId, done, started>>

Init ==
    /\ shared = [val |-> {}, epoch |-> 0]
    /\ lock = "none"
    /\ cache = [c \in Clones |-> [val |-> {}, epoch |-> 0]]
    /\ pc = [c \in Clones |-> "idle"]
    /\ loc = [c \in Clones |-> [id |-> 0, e |-> 0, must |-> {}, res |-> {}]]
    /\ nops = 0
    /\ nextId = 1
    /\ done = {}          \* ghost: ids whose connect has returned
    /\ started = {}       \* ghost: ids whose connect has begun

-----------------------------------------------------------------------------
(* connect through clone c: CachedRwLock::write() then the guard's mutation *)

ConnectStart(c) ==
    /\ pc[c] = "idle" /\ nops < MaxOps /\ nextId <= MaxConnects
    /\ loc' = [loc EXCEPT ![c].id = nextId]
    /\ started' = started \cup {nextId}
    /\ nextId' = nextId + 1
    /\ nops' = nops + 1
    /\ pc' = [pc EXCEPT ![c] = IF BumpUnderLock THEN "w_lock" ELSE "w_bump"]
    /\ UNCHANGED <<shared, lock, cache, done>>

WLock(c) ==
    /\ pc[c] = "w_lock" /\ lock = "none"
    /\ lock' = c
    /\ pc' = [pc EXCEPT ![c] = IF BumpUnderLock THEN "w_bump" ELSE "w_mutate"]
    /\ UNCHANGED <<shared, cache, loc, nops, nextId, done, started>>

WBump(c) ==      \* epoch.load + 1, epoch.store: under the lock nobody else writes the epoch; without it this is two steps
    /\ pc[c] = "w_bump"
    /\ IF BumpUnderLock
       THEN /\ shared' = [shared EXCEPT !.epoch = @ + 1]
            /\ pc' = [pc EXCEPT ![c] = "w_mutate"]
            /\ UNCHANGED loc
       ELSE /\ loc' = [loc EXCEPT ![c].e = shared.epoch]
            /\ pc' = [pc EXCEPT ![c] = "w_bump2"]
            /\ UNCHANGED shared
    /\ UNCHANGED <<lock, cache, nops, nextId, done, started>>

WBump2(c) ==
    /\ pc[c] = "w_bump2"
    /\ shared' = [shared EXCEPT !.epoch = loc[c].e + 1]
    /\ pc' = [pc EXCEPT ![c] = "w_lock"]
    /\ UNCHANGED <<lock, cache, loc, nops, nextId, done, started>>

WMutate(c) ==
    /\ pc[c] = "w_mutate" /\ lock = c
    /\ shared' = [shared EXCEPT !.val = @ \cup {loc[c].id}]
    /\ pc' = [pc EXCEPT ![c] = "w_unlock"]
    /\ UNCHANGED <<lock, cache, loc, nops, nextId, done, started>>

WUnlock(c) ==
    /\ pc[c] = "w_unlock" /\ lock = c
    /\ lock' = "none"
    /\ pc' = [pc EXCEPT ![c] = "w_done"]
    /\ UNCHANGED <<shared, cache, loc, nops, nextId, done, started>>

ConnectEnd(c) ==     \* connect() returns: from now on every send that begins must reach the new connection
    /\ pc[c] = "w_done"
    /\ done' = done \cup {loc[c].id}
    /\ pc' = [pc EXCEPT ![c] = "idle"]
    /\ UNCHANGED <<shared, lock, cache, loc, nops, nextId, started>>

-----------------------------------------------------------------------------
(* send through clone c: write_scratchpad() then the broadcast over the cached list *)

SendStart(c) ==
    /\ pc[c] = "idle" /\ nops < MaxOps
    /\ loc' = [loc EXCEPT ![c].must = done]        \* every connect that has returned must be seen
    /\ nops' = nops + 1
    /\ pc' = [pc EXCEPT ![c] = "r_check"]
    /\ UNCHANGED <<shared, lock, cache, nextId, done, started>>

RCheck(c) ==
    /\ pc[c] = "r_check"
    /\ pc' = [pc EXCEPT ![c] = IF shared.epoch # cache[c].epoch THEN "r_lock" ELSE "r_use"]
    /\ UNCHANGED <<shared, lock, cache, loc, nops, nextId, done, started>>

RLock(c) ==
    /\ pc[c] = "r_lock"
    /\ IF RefreshUnderLock
       THEN lock = "none" /\ lock' = c
       ELSE UNCHANGED lock
    /\ pc' = [pc EXCEPT ![c] = "r_copy"]
    /\ UNCHANGED <<shared, cache, loc, nops, nextId, done, started>>

RCopy(c) ==
    /\ pc[c] = "r_copy"
    /\ cache' = [cache EXCEPT ![c].val = shared.val]
    /\ pc' = [pc EXCEPT ![c] = "r_epoch"]
    /\ UNCHANGED <<shared, lock, loc, nops, nextId, done, started>>

REpoch(c) ==
    /\ pc[c] = "r_epoch"
    /\ cache' = [cache EXCEPT ![c].epoch = shared.epoch]
    /\ pc' = [pc EXCEPT ![c] = "r_unlock"]
    /\ UNCHANGED <<shared, lock, loc, nops, nextId, done, started>>

RUnlock(c) ==
    /\ pc[c] = "r_unlock"
    /\ lock' = IF RefreshUnderLock THEN "none" ELSE lock
    /\ pc' = [pc EXCEPT ![c] = "r_use"]
    /\ UNCHANGED <<shared, cache, loc, nops, nextId, done, started>>

RUse(c) ==       \* the broadcast reaches exactly the cached connections
    /\ pc[c] = "r_use"
    /\ loc' = [loc EXCEPT ![c].res = cache[c].val]
    /\ pc' = [pc EXCEPT ![c] = "r_done"]
    /\ UNCHANGED <<shared, lock, cache, nops, nextId, done, started>>

SendEnd(c) ==
    /\ pc[c] = "r_done"
    /\ pc' = [pc EXCEPT ![c] = "idle"]
    /\ UNCHANGED <<shared, lock, cache, loc, nops, nextId, done, started>>

Next ==
    \E c \in Clones :
        \/ ConnectStart(c) \/ WLock(c) \/ WBump(c) \/ WBump2(c) \/ WMutate(c) \/ WUnlock(c) \/ ConnectEnd(c)
        \/ SendStart(c) \/ RCheck(c) \/ RLock(c) \/ RCopy(c) \/ REpoch(c) \/ RUnlock(c) \/ RUse(c) \/ SendEnd(c)

Spec == Init /\ [][Next]_vars

-----------------------------------------------------------------------------
(* C14, second half, under concurrency *)

(* a send reaches every connection whose connect() had returned when the send began, through whichever clone *)
SeesCompletedConnects == \A c \in Clones : pc[c] = "r_done" => loc[c].must \subseteq loc[c].res

(* and nothing that was never (being) connected *)
NothingInvented == \A c \in Clones : pc[c] = "r_done" => loc[c].res \subseteq started

(* a cache that claims to be current is current: same epoch as the shared list and nobody writing => same list *)
CacheCoherent ==
    \A c \in Clones :
        (pc[c] \in {"idle", "w_done", "r_check", "r_use", "r_done"} /\ lock = "none" /\ cache[c].epoch = shared.epoch
            /\ \A d \in Clones : pc[d] \notin {"w_bump", "w_bump2", "w_lock", "w_mutate", "w_unlock"})
        => cache[c].val = shared.val

(* the mutex *)
MutexOk == lock \in Clones \cup {"none"}
=============================================================================
