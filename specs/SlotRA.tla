------------------------------- MODULE SlotRA -------------------------------
(***************************************************************************)
(* The one-shot reply slot (nexosim/src/util/slot.rs) through which the    *)
(* reply of process_query / a QuerySource action travels back to the       *)
(* driver: a SlotWriter (moved into the query's task) and a SlotReader     *)
(* (kept by the caller) share a heap cell {state, value}; whoever finds    *)
(* the CLOSED flag already set by the other side frees the cell.           *)
(*                                                                         *)
(* Operational release/acquire model, as SeqLock.tla / QueueRA.tla:        *)
(*   mem[x]   messages [val, view] of the atomic location "state" and of   *)
(*            the plain location "value" (position = timestamp)            *)
(*   cur[t]   what thread t has observed; acq[t] what it will have         *)
(*            observed after its next acquire fence                        *)
(* Views also count, per thread, the accesses to the cell ("touches") that *)
(* are known to have happened: freeing the cell is legal only for a thread *)
(* that has observed every touch of the other one (otherwise the           *)
(* deallocation races with an access), and nobody may touch a freed cell.  *)
(*                                                                         *)
(* The ordering of each atomic operation and the presence of the acquire   *)
(* fence of write() are CONSTANTS extracted from slot.rs by the check.     *)
(***************************************************************************)
EXTENDS Naturals, Sequences, FiniteSets, TLC

CONSTANTS
    NReads,        \* try_read attempts of the reader before it is dropped (0..NReads, chosen freely)
    OWWrite,       \* write:    state.fetch_or(POPULATED | CLOSED)   (code: Release)
    FWClosed,      \* write:    fence(Acquire) when the slot was closed (code: TRUE)
    OWDropLoad,    \* writer drop: state.load                       (code: Acquire)
    OWDropRmw,     \* writer drop: state.fetch_or(CLOSED)           (code: AcqRel)
    ORRead,        \* try_read: state.load                           (code: Acquire)
    ORStore,       \* try_read: state.store(CLOSED)                  (code: Relaxed)
    ORDropLoad,    \* reader drop: state.load                        (code: Acquire)
    ORDropRmw      \* reader drop: state.fetch_or(CLOSED)            (code: AcqRel)

Threads == {"W", "R"}
Other(t) == IF t = "W" THEN "R" ELSE "W"
Locs == {"state", "value", "tW", "tR"}
TouchLoc(t) == IF t = "W" THEN "tW" ELSE "tR"

C == 1      \* CLOSED
P == 2      \* POPULATED
HasC(s) == s % 2 = 1
HasP(s) == s >= 2

Acq(o) == o \in {"acq", "acqrel"}
Rel(o) == o \in {"rel", "acqrel"}

VARIABLES mem, cur, acq, pc, loc, ntouch, freed, bad, vstate

vars == <<mem, cur, acq, pc, loc, ntouch, freed, bad, vstate>>

ZeroView == [x \in Locs |-> IF x \in {"tW", "tR"} THEN 0 ELSE 1]
Join(a, b) == [x \in Locs |-> IF a[x] >= b[x] THEN a[x] ELSE b[x]]

Init ==
    /\ mem = [x \in {"state", "value"} |-> <<[val |-> 0, view |-> ZeroView]>>]
    /\ cur = [t \in Threads |-> ZeroView]
    /\ acq = [t \in Threads |-> ZeroView]
    /\ pc = [t \in Threads |-> IF t = "W" THEN "w_start" ELSE "r_start"]
    /\ loc = [t \in Threads |-> [s |-> 0, n |-> 0]]
    /\ ntouch = [t \in Threads |-> 0]
    /\ freed = FALSE
    /\ bad = "no"
    /\ vstate = "empty"     \* ghost: "empty" | "written" | "read" | "dropped" | "double"

(* every access to the cell by t: counts as a touch; touching a freed cell is a use after free *)
Touched(t, c) == [c EXCEPT ![TouchLoc(t)] = ntouch[t] + 1]
TouchBook(t) == ntouch' = [ntouch EXCEPT ![t] = @ + 1]
Uaf(t, b) == IF b = "no" /\ freed THEN "use-after-free:" \o t ELSE b

Latest(x) == mem[x][Len(mem[x])]

(* atomic load by t of the message of "state" with timestamp i *)
Load(t, o, i) ==
    /\ i \in cur[t]["state"]..Len(mem["state"])
    /\ LET m  == mem["state"][i]
           c1 == Touched(t, [cur[t] EXCEPT !["state"] = i])
       IN  /\ cur' = [cur EXCEPT ![t] = IF Acq(o) THEN Join(c1, m.view) ELSE c1]
           /\ acq' = [acq EXCEPT ![t] = Join(Join(@, c1), m.view)]
    /\ TouchBook(t)
    /\ UNCHANGED mem

(* atomic store *)
Store(t, v, o) ==
    LET ts == Len(mem["state"]) + 1
        c1 == Touched(t, [cur[t] EXCEPT !["state"] = ts])
        mv == IF Rel(o) THEN c1 ELSE [ZeroView EXCEPT !["state"] = ts]
    IN  /\ mem' = [mem EXCEPT !["state"] = Append(@, [val |-> v, view |-> mv])]
        /\ cur' = [cur EXCEPT ![t] = c1]
        /\ acq' = [acq EXCEPT ![t] = Join(@, c1)]
        /\ TouchBook(t)

(* read-modify-write: reads the latest message, writes f(old); the new message continues the release sequence *)
Rmw(t, newv, o) ==
    LET m  == Latest("state")
        ts == Len(mem["state"]) + 1
        c0 == IF Acq(o) THEN Join(cur[t], m.view) ELSE cur[t]
        c1 == Touched(t, [c0 EXCEPT !["state"] = ts])
        mv == Join(IF Rel(o) THEN c1 ELSE [ZeroView EXCEPT !["state"] = ts], m.view)
    IN  /\ mem' = [mem EXCEPT !["state"] = Append(@, [val |-> newv, view |-> [mv EXCEPT !["state"] = ts]])]
        /\ cur' = [cur EXCEPT ![t] = c1]
        /\ acq' = [acq EXCEPT ![t] = Join(Join(@, c1), m.view)]
        /\ TouchBook(t)

(* plain access to the value by t (write = TRUE appends) *)
RacyValue(t) == cur[t]["value"] # Len(mem["value"])
Plain(t, write) ==
    LET ts == Len(mem["value"]) + 1
        c1 == Touched(t, IF write THEN [cur[t] EXCEPT !["value"] = ts] ELSE cur[t])
    IN  /\ mem' = IF write THEN [mem EXCEPT !["value"] = Append(@, [val |-> 1, view |-> ZeroView])] ELSE mem
        /\ cur' = [cur EXCEPT ![t] = c1]
        /\ acq' = [acq EXCEPT ![t] = Join(@, c1)]
        /\ TouchBook(t)

(* Box::from_raw + drop: legal only if every access of the other thread is known to have happened *)
Free(t) ==
    /\ bad' = IF bad # "no" THEN bad
              ELSE IF freed THEN "double-free"
              ELSE IF cur[t][TouchLoc(Other(t))] # ntouch[Other(t)] THEN "racy-dealloc:" \o t
              ELSE "no"
    /\ freed' = TRUE
    /\ UNCHANGED <<mem, cur, acq, ntouch>>

-----------------------------------------------------------------------------
(* SlotWriter: either write(value) or drop *)

WStart ==
    /\ pc["W"] = "w_start"
    /\ \E nxt \in {"w_value", "wd_load"} : pc' = [pc EXCEPT !["W"] = nxt]
    /\ UNCHANGED <<mem, cur, acq, loc, ntouch, freed, bad, vstate>>

WValue ==       \* write_value
    /\ pc["W"] = "w_value"
    /\ bad' = Uaf("W", IF bad = "no" /\ RacyValue("W") THEN "race:write_value" ELSE bad)
    /\ Plain("W", TRUE)
    /\ vstate' = "written"
    /\ pc' = [pc EXCEPT !["W"] = "w_rmw"]
    /\ UNCHANGED <<loc, freed>>

WRmw ==         \* fetch_or(POPULATED | CLOSED)
    /\ pc["W"] = "w_rmw"
    /\ LET old == Latest("state").val IN
       /\ Rmw("W", 3, OWWrite)
       /\ loc' = [loc EXCEPT !["W"].s = old]
       /\ pc' = [pc EXCEPT !["W"] = IF HasC(old) THEN "w_fence" ELSE "done"]
    /\ bad' = Uaf("W", bad)
    /\ UNCHANGED <<freed, vstate>>

WFence ==
    /\ pc["W"] = "w_fence"
    /\ cur' = IF FWClosed THEN [cur EXCEPT !["W"] = Join(@, acq["W"])] ELSE cur
    /\ pc' = [pc EXCEPT !["W"] = "w_dropval"]
    /\ UNCHANGED <<mem, acq, loc, ntouch, freed, bad, vstate>>

WDropVal ==     \* drop_value_in_place
    /\ pc["W"] = "w_dropval"
    /\ bad' = Uaf("W", IF bad = "no" /\ RacyValue("W") THEN "race:drop_value(writer)" ELSE bad)
    /\ Plain("W", TRUE)
    /\ vstate' = IF vstate = "written" THEN "dropped" ELSE "double"
    /\ pc' = [pc EXCEPT !["W"] = "w_free"]
    /\ UNCHANGED <<loc, freed>>

WFree ==
    /\ pc["W"] \in {"w_free", "wd_free"}
    /\ Free("W")
    /\ pc' = [pc EXCEPT !["W"] = "done"]
    /\ UNCHANGED <<loc, vstate>>

WDLoad ==       \* drop handler: state.load
    /\ pc["W"] = "wd_load"
    /\ \E i \in 1..Len(mem["state"]) :
          /\ Load("W", OWDropLoad, i)
          /\ loc' = [loc EXCEPT !["W"].s = mem["state"][i].val]
          /\ pc' = [pc EXCEPT !["W"] = IF HasC(mem["state"][i].val) THEN "wd_free" ELSE "wd_rmw"]
    /\ bad' = Uaf("W", bad)
    /\ UNCHANGED <<freed, vstate>>

WDRmw ==        \* fetch_or(CLOSED)
    /\ pc["W"] = "wd_rmw"
    /\ LET old == Latest("state").val IN
       /\ Rmw("W", IF HasC(old) THEN old ELSE old + C, OWDropRmw)
       /\ loc' = [loc EXCEPT !["W"].s = old]
       /\ pc' = [pc EXCEPT !["W"] = IF HasC(old) THEN "wd_free" ELSE "done"]
    /\ bad' = Uaf("W", bad)
    /\ UNCHANGED <<freed, vstate>>

-----------------------------------------------------------------------------
(* SlotReader: some try_read calls, then drop *)

RStart ==
    /\ pc["R"] = "r_start"
    /\ \/ loc["R"].n < NReads /\ pc' = [pc EXCEPT !["R"] = "r_load"]
       \/ pc' = [pc EXCEPT !["R"] = "rd_load"]
    /\ UNCHANGED <<mem, cur, acq, loc, ntouch, freed, bad, vstate>>

RLoad ==        \* try_read: state.load
    /\ pc["R"] = "r_load"
    /\ \E i \in 1..Len(mem["state"]) :
          /\ Load("R", ORRead, i)
          /\ LET s == mem["state"][i].val IN
             /\ loc' = [loc EXCEPT !["R"].s = s, !["R"].n = @ + 1]
             /\ pc' = [pc EXCEPT !["R"] = IF HasP(s) THEN "r_store" ELSE "r_start"]    \* NoValue / Closed
    /\ bad' = Uaf("R", bad)
    /\ UNCHANGED <<freed, vstate>>

RStore ==       \* state.store(CLOSED)
    /\ pc["R"] = "r_store"
    /\ Store("R", C, ORStore)
    /\ bad' = Uaf("R", bad)
    /\ pc' = [pc EXCEPT !["R"] = "r_value"]
    /\ UNCHANGED <<loc, freed, vstate>>

RValue ==       \* read_value
    /\ pc["R"] = "r_value"
    /\ bad' = Uaf("R", IF bad = "no" /\ RacyValue("R") THEN "race:read_value" ELSE bad)
    /\ Plain("R", TRUE)
    /\ vstate' = IF vstate = "written" THEN "read" ELSE "double"
    /\ pc' = [pc EXCEPT !["R"] = "r_start"]
    /\ UNCHANGED <<loc, freed>>

RDLoad ==       \* drop handler: state.load
    /\ pc["R"] = "rd_load"
    /\ \E i \in 1..Len(mem["state"]) :
          /\ Load("R", ORDropLoad, i)
          /\ LET s == mem["state"][i].val IN
             /\ loc' = [loc EXCEPT !["R"].s = s]
             /\ pc' = [pc EXCEPT !["R"] = IF HasC(s) THEN (IF HasP(s) THEN "rd_dropval" ELSE "rd_free") ELSE "rd_rmw"]
    /\ bad' = Uaf("R", bad)
    /\ UNCHANGED <<freed, vstate>>

RDRmw ==        \* fetch_or(CLOSED)
    /\ pc["R"] = "rd_rmw"
    /\ LET old == Latest("state").val IN
       /\ Rmw("R", IF HasC(old) THEN old ELSE old + C, ORDropRmw)
       /\ loc' = [loc EXCEPT !["R"].s = old]
       /\ pc' = [pc EXCEPT !["R"] = IF ~HasC(old) THEN "done" ELSE IF HasP(old) THEN "rd_dropval" ELSE "rd_free"]
    /\ bad' = Uaf("R", bad)
    /\ UNCHANGED <<freed, vstate>>

RDDropVal ==    \* drop_value_in_place
    /\ pc["R"] = "rd_dropval"
    /\ bad' = Uaf("R", IF bad = "no" /\ RacyValue("R") THEN "race:drop_value(reader)" ELSE bad)
    /\ Plain("R", TRUE)
    /\ vstate' = IF vstate = "written" THEN "dropped" ELSE "double"
    /\ pc' = [pc EXCEPT !["R"] = "rd_free"]
    /\ UNCHANGED <<loc, freed>>

RFree ==
    /\ pc["R"] = "rd_free"
    /\ Free("R")
    /\ pc' = [pc EXCEPT !["R"] = "done"]
    /\ UNCHANGED <<loc, vstate>>

Next ==
    \/ WStart \/ WValue \/ WRmw \/ WFence \/ WDropVal \/ WFree \/ WDLoad \/ WDRmw
    \/ RStart \/ RLoad \/ RStore \/ RValue \/ RDLoad \/ RDRmw \/ RDDropVal \/ RFree

Spec == Init /\ [][Next]_vars

-----------------------------------------------------------------------------
(* no data race on the value, no access after the cell was freed, no free racing with an access, no double free *)
Safe == bad = "no"

(* the value is read or dropped at most once *)
ValueOnce == vstate # "double"

(* when both sides are gone the cell has been freed exactly once and a written value was consumed *)
AllDone == \A t \in Threads : pc[t] = "done"
NoLeak == AllDone => (freed /\ vstate \in {"empty", "read", "dropped"})

(* vacuity guards (expected to be violated) *)
NeverRead == vstate # "read"
NeverWriterFrees == ~(pc["W"] = "done" /\ freed /\ loc["W"].s % 2 = 1 /\ pc["R"] = "done")
=============================================================================
