------------------------------- MODULE MC_Task -------------------------------
EXTENDS Task, Json

CONSTANT Emit

Invs == Safe /\ RefsExact /\ RunnableConsistent /\ NoLostWake /\ NoLeak /\ NoEarlyFree

(* Sequential histories for replay: operations with the observables after each. *)
EmitHist ==
    (Emit /\ AllIdle /\ (nops = MaxOps \/ (runq = 0 /\ pool = 0 /\ ~token /\ ~promise))) =>
        PrintT(<<"BEHAVIOUR", ToJson([ops |-> hist, final |-> Obs])>>)
=============================================================================
