------------------------------- MODULE SimCore -------------------------------
(***************************************************************************)
(* The simulation as seen by its driver (layer L4 of DESIGN.md):           *)
(* simulation time, the scheduler queue, step / step_until / process_*,    *)
(* clock synchronisation, cancellation keys, failure classification and    *)
(* the Terminated contract.                                                *)
(*                                                                         *)
(* One action per public call or per linearisation point of the code:      *)
(*   driver:   DSchedule DCancel DStep DStepUntil DProcess                  *)
(*   stepping: Pull (time write + pull loop, atomic under the queue lock), *)
(*             DoSync (Clock::synchronize), the run phase, Return          *)
(*   run phase (executor running, small-step):                             *)
(*             HTake (a model takes a message from its mailbox, keyed      *)
(*             events re-check their key here), HSkip (cancelled keyed     *)
(*             event discarded by the target), HStart (the handler body    *)
(*             begins and reads the time), HOp (one operation of the       *)
(*             handler: schedule / cancel / send / panic / ...),           *)
(*             Quiesce / Abort (Executor::run returns)                     *)
(*                                                                         *)
(* Handlers are data: a message carries the index of a program in Prog,    *)
(* the same table from which the Rust harness instantiates its scripted    *)
(* models, so both sides execute the same bench.                           *)
(*                                                                         *)
(* Mailboxes are abstracted to one FIFO per (recipient, sending task):     *)
(* this is what the layers below are checked to implement (Bench.tla,      *)
(* MpscQueue.tla) and it is the weakest thing this layer needs; capacity   *)
(* is not modelled here.                                                   *)
(***************************************************************************)
EXTENDS Naturals, Integers, Sequences, FiniteSets, TLC, SequencesExt

CONSTANTS
    ModelSeq,   \* sequence of model names, in add_model order
    Prog,       \* Prog[i]: sequence of op records (see HOp)
    Conn,       \* Conn[m]: sequence; Conn[m][p] = target of output port p of m:
                \*   a model name, "DEAD" (mailbox dropped), "ORPHAN" (mailbox never added)
    SrcConn,    \* SrcConn[s]: sequence of targets of event source s (same alphabet)
    Tolerance,  \* -1: no clock tolerance configured; otherwise the tolerated lag
    TimeoutOn   \* TRUE iff a step timeout is configured

Models  == {ModelSeq[i] : i \in 1..Len(ModelSeq)}
Origins == {"drv"} \cup Models

VARIABLES
    now,        \* simulation time (ticks since start)
    queue,      \* set of scheduled actions (records, see NewAction)
    nextEpoch,  \* insertion counter of the scheduler queue
    cancelled,  \* set of cancelled key ids
    slots,      \* function: slot name -> key id (0 = empty): where handles are kept
    terminated, \* the simulation hit a fatal error
    phase,      \* "idle" | "pull" | "sync" | "run" | "ret"
    cmd,        \* the driver command in progress (record) or NoCmd
    mbox,       \* mbox[m]: function sender -> sequence of messages
    running,    \* running[m]: NoHandler or [prog, pc, msg]
    blocked,    \* set of models whose handler will never resume (query on itself)
    orphan,     \* number of messages sitting in never-added mailboxes
    pendErr,    \* set of error results raised during the current run phase
    result,     \* result of the command being returned (phase "ret")
    \* ---- ghost / observation variables (hidden by the VIEW of the MC configs)
    synced,     \* sequence of times passed to synchronize since init
    fired,      \* fired[m]: sequence of the messages m started processing [time, due, prog, origin, ep, sid, key, nsync]
                \* (kept per model so that independent steps of different models commute)
    sched,      \* set of accepted scheduling requests [sid, first, per, key, cls, target, origin, at]
    cancelPos,  \* key id -> [n |-> Len(fired), t |-> now] when it was (first) cancelled
    termAt      \* [now, nfired, nsynced] when the simulation terminated (or NotTerminated)

vars == <<now, queue, nextEpoch, cancelled, slots, terminated, phase, cmd, mbox,
          running, blocked, orphan, pendErr, result, synced, fired, sched, cancelPos, termAt>>

NoCmd     == [name |-> "none"]
NoHandler == [prog |-> 0, pc |-> 0, from |-> ""]
NotTerminated == [now |-> -1]

Senders == {"drv"} \cup {"g:" \o o : o \in Origins} \cup Models

EmptyBox == [s \in Senders |-> <<>>]

-----------------------------------------------------------------------------
(* Results, normalised so that they can be compared with logged results. *)
Res(r, model, n, list) == [r |-> r, model |-> model, n |-> n, list |-> list]
ROk              == Res("ok", "", 0, <<>>)
RTerminated      == Res("terminated", "", 0, <<>>)
RPanic(m)        == Res("panic", m, 0, <<>>)
RNoRecipient(m)  == Res("norecipient", m, 0, <<>>)      \* m = "" for the scheduler
RTimeout         == Res("timeout", "", 0, <<>>)
ROutOfSync(lag)  == Res("outofsync", "", lag, <<>>)
RMsgLoss(n)      == Res("msgloss", "", n, <<>>)
RDeadlock(list)  == Res("deadlock", "", 0, list)
RInvalidDeadline(t) == Res("invalid_deadline", "", t, <<>>)
RBadQuery        == Res("badquery", "", 0, <<>>)

IsFatal(res) == res.r \in {"panic", "norecipient", "timeout", "outofsync", "msgloss", "deadlock"}

-----------------------------------------------------------------------------
(* Scheduler queue *)
IsPeriodicKind(k) == k \in {"periodic", "kperiodic"}
IsKeyedKind(k)    == k \in {"keyed", "kperiodic"}

Live(a)   == a.key = 0 \/ a.key \notin cancelled
LiveSet   == {a \in queue : Live(a)}

MinTime(S) == CHOOSE t \in {a.time : a \in S} : \A a \in S : t <= a.time

(* The outcome of a scheduling request.  When both the period and the     *)
(* deadline are invalid either error may be reported.                     *)
SchedOutcomes(time, kind, per) ==
    LET perBad  == IsPeriodicKind(kind) /\ per = 0
        timeBad == time <= now
    IN  IF ~perBad /\ ~timeBad THEN {"ok"}
        ELSE (IF perBad THEN {"null_period"} ELSE {}) \cup
             (IF timeBad THEN {"invalid_time"} ELSE {})

NewAction(ep, time, origin, cls, target, prog, kind, per) ==
    [ep |-> ep, time |-> time, origin |-> origin, cls |-> cls, target |-> target,
     prog |-> prog, per |-> IF IsPeriodicKind(kind) THEN per ELSE 0,
     key |-> IF IsKeyedKind(kind) THEN ep ELSE 0,
     first |-> time, sid |-> ep]

(* Effect of an accepted/rejected request on queue, nextEpoch and slots. *)
ApplySched(outcome, time, origin, cls, target, prog, kind, per, slot) ==
    IF outcome = "ok"
    THEN /\ queue' = queue \cup {NewAction(nextEpoch, time, origin, cls, target, prog, kind, per)}
         /\ nextEpoch' = nextEpoch + 1
         /\ slots' = IF IsKeyedKind(kind) THEN [slots EXCEPT ![slot] = nextEpoch] ELSE slots
         /\ sched' = sched \cup {[sid |-> nextEpoch, first |-> time,
                                   per |-> IF IsPeriodicKind(kind) THEN per ELSE 0,
                                   periodic |-> IsPeriodicKind(kind),
                                   key |-> IF IsKeyedKind(kind) THEN nextEpoch ELSE 0,
                                   cls |-> cls, target |-> target, origin |-> origin, at |-> now]}
    ELSE UNCHANGED <<queue, nextEpoch, slots, sched>>

-----------------------------------------------------------------------------
(* Sequences out of sets, ordered by epoch *)
EpLess(a, b) == a.ep < b.ep
SortByEp(S)  == SetToSortSeq(S, EpLess)

(* Messages produced by one due action a (sender is the group of its origin). *)
Targets(a) == IF a.cls = "ev" THEN <<a.target>> ELSE SrcConn[a.target]

Msg(a, t) == [prog |-> a.prog, key |-> IF a.cls = "ev" THEN a.key ELSE 0, akey |-> a.key,
              cls |-> a.cls, due |-> t, origin |-> a.origin, ep |-> a.ep, sid |-> a.sid]

(* A message that does not come from the scheduler queue. *)
DirectMsg(prog, cls, origin) ==
    [prog |-> prog, key |-> 0, akey |-> 0, cls |-> cls, due |-> now, origin |-> origin,
     ep |-> 0, sid |-> 0]

(* Ghost: remember where a key was first cancelled. *)
NoteCancel(k) ==
    cancelPos' = IF k = 0 \/ k \in DOMAIN cancelPos THEN cancelPos
                 ELSE cancelPos @@ (k :> [n |-> [m \in Models |-> Len(fired[m])], t |-> now, ph |-> phase])

RECURSIVE Deliver(_, _, _)
(* Append, for every action of the sequence acts (one origin group), its   *)
(* messages to the mailboxes; returns the new mbox function.               *)
Deliver(mb, acts, t) ==
    IF acts = <<>> THEN mb
    ELSE LET a  == Head(acts)
             sn == "g:" \o a.origin
             tg == Targets(a)
             mb2 == [m \in Models |->
                       LET k == Cardinality({i \in 1..Len(tg) : tg[i] = m})
                       IN  IF k = 0 THEN mb[m]
                           ELSE [mb[m] EXCEPT ![sn] = @ \o [i \in 1..k |-> Msg(a, t)]]]
         IN  Deliver(mb2, Tail(acts), t)

CountTargets(S, x) ==
    LET F[T \in SUBSET S] ==
          IF T = {} THEN 0
          ELSE LET a == CHOOSE b \in T : TRUE
                   tg == Targets(a)
               IN  Cardinality({i \in 1..Len(tg) : tg[i] = x}) + F[T \ {a}]
    IN  F[S]

-----------------------------------------------------------------------------
Init ==
    /\ now = 0
    /\ queue = {}
    /\ nextEpoch = 1
    /\ cancelled = {}
    /\ slots = [s \in {"k1", "k2", "k3"} |-> 0]
    /\ terminated = FALSE
    /\ phase = "idle"
    /\ cmd = NoCmd
    /\ mbox = [m \in Models |-> EmptyBox]
    /\ running = [m \in Models |-> NoHandler]
    /\ blocked = {}
    /\ orphan = 0
    /\ pendErr = {}
    /\ result = ROk
    /\ synced = <<0>>          \* init synchronises once on the start time
    /\ fired = [m \in Models |-> <<>>]
    /\ sched = {}
    /\ cancelPos = <<>>
    /\ termAt = NotTerminated

runVars == <<mbox, running, blocked, orphan, pendErr>>
ghost   == <<synced, fired, sched, cancelPos, termAt>>
ghostNS == <<synced, fired, cancelPos, termAt>>

-----------------------------------------------------------------------------
(* Driver: scheduling and cancelling (do not run the executor). *)

(* Scheduler::schedule_*event  (cls = "ev")  and                            *)
(* Scheduler::schedule(deadline, source.*event(..))  (cls = "act").         *)
DSchedule(cls, target, abs, d, kind, per, slot, prog, outcome) ==
    /\ phase = "idle"
    /\ LET time == IF abs THEN d ELSE now + d
       IN  /\ outcome \in SchedOutcomes(time, kind, per)
           /\ ApplySched(outcome, time, "drv", cls, target, prog, kind, per, slot)
    /\ UNCHANGED <<now, cancelled, terminated, phase, cmd, runVars, result, ghostNS>>

(* ActionKey::cancel on the handle (or a clone), or drop of an AutoActionKey. *)
DCancel(slot) ==
    /\ phase = "idle"
    /\ cancelled' = IF slots[slot] = 0 THEN cancelled ELSE cancelled \cup {slots[slot]}
    /\ NoteCancel(slots[slot])
    /\ UNCHANGED <<now, queue, nextEpoch, slots, terminated, phase, cmd, runVars, result,
                   synced, fired, sched, termAt>>

(* A scheduling request made through a Scheduler handle from another thread *)
(* while the simulation may be stepping: the time read, the validation and   *)
(* the insertion are one atomic step (they happen under the queue lock, as   *)
(* does Pull), but it can come between any two other steps.                  *)
XSchedule(target, abs, d, kind, per, slot, prog, outcome) ==
    /\ LET time == IF abs THEN d ELSE now + d
       IN  /\ outcome \in SchedOutcomes(time, kind, per)
           /\ ApplySched(outcome, time, "drv", "ev", target, prog, kind, per, slot)
           \* a request accepted after step() was called and before it has looked at the queue changes the time
           \* the step is expected to reach (ghost field of cmd, used by StepPost)
           /\ cmd' = IF phase = "pull" /\ cmd.name = "step" /\ outcome = "ok"
                        /\ (LiveSet = {} \/ time < cmd.exp)
                     THEN [cmd EXCEPT !.exp = time] ELSE cmd
    /\ UNCHANGED <<now, cancelled, terminated, phase, runVars, result, ghostNS>>

-----------------------------------------------------------------------------
(* Driver: commands that run the executor.  A command begins (Cmd event),  *)
(* goes through pull / sync / run, and returns (Ret event).                *)

Return(res) ==
    /\ phase' = "ret"
    /\ result' = res
    /\ terminated' = (terminated \/ IsFatal(res))

DStep ==
    /\ phase = "idle"
    /\ cmd' = [name |-> "step", bound |-> -1, t0 |-> now,
               exp |-> IF LiveSet = {} THEN now ELSE MinTime(LiveSet)]
    /\ IF terminated
       THEN Return(RTerminated)
       ELSE /\ phase' = "pull" /\ UNCHANGED <<result, terminated>>
    /\ UNCHANGED <<now, queue, nextEpoch, cancelled, slots, runVars, ghost>>

DStepUntil(abs, d) ==
    /\ phase = "idle"
    /\ LET target == IF abs THEN d ELSE now + d
       IN  /\ cmd' = [name |-> "step_until", bound |-> target, t0 |-> now, exp |-> target]
           /\ IF terminated THEN Return(RTerminated)
              ELSE IF target < now THEN Return(RInvalidDeadline(target))
              ELSE /\ phase' = "pull" /\ UNCHANGED <<result, terminated>>
    /\ UNCHANGED <<now, queue, nextEpoch, cancelled, slots, runVars, ghost>>

(* process_event / process_query on a model (or a DEAD / ORPHAN mailbox),  *)
(* and process(action) with an event-source action.                        *)
DProcess(kind, target, prog) ==
    /\ phase = "idle"
    /\ kind \in {"event", "query", "action"}
    /\ cmd' = [name |-> kind, bound |-> -1, t0 |-> now, exp |-> now, target |-> target]
    /\ IF terminated
       THEN /\ Return(RTerminated)
            /\ UNCHANGED runVars
       ELSE /\ phase' = "run"
            /\ UNCHANGED <<result, terminated>>
            /\ LET tg == IF kind = "action" THEN SrcConn[target] ELSE <<target>>
                   m0 == DirectMsg(prog, IF kind = "query" THEN "qry"
                                         ELSE IF kind = "action" THEN "act" ELSE "ev", "drv")
               IN  /\ mbox' = [m \in Models |->
                                 LET k == Cardinality({i \in 1..Len(tg) : tg[i] = m})
                                 IN  IF k = 0 THEN mbox[m]
                                     ELSE [mbox[m] EXCEPT !["drv"] = @ \o [i \in 1..k |-> m0]]]
                   /\ orphan' = orphan + Cardinality({i \in 1..Len(tg) : tg[i] = "ORPHAN"})
                   \* only event-source actions raise NoRecipient; process_event and
                   \* process_query ignore the send error
                   /\ pendErr' = IF kind = "action" /\ \E i \in 1..Len(tg) : tg[i] = "DEAD"
                                 THEN {RNoRecipient("")} ELSE {}
            /\ UNCHANGED <<running, blocked>>
    /\ UNCHANGED <<now, queue, nextEpoch, cancelled, slots, ghost>>

-----------------------------------------------------------------------------
(* step_to_next_bounded: under the queue lock, discard cancelled heads,    *)
(* find the next live deadline within the bound, write the time, pull      *)
(* every live action due then (re-inserting periodic ones one period       *)
(* later with a fresh epoch, in pull order), hand them to the executor     *)
(* grouped by origin.                                                      *)
Bound == IF cmd.bound = -1 THEN 1000000 ELSE cmd.bound

DueSet == {a \in LiveSet : a.time <= Bound}

Pull ==
    /\ phase = "pull"
    /\ IF DueSet = {}
       THEN \* nothing (left) to do within the bound
            IF cmd.name = "step_until" /\ now < cmd.bound
            THEN \* move to the target time and synchronise on it
                 /\ now' = cmd.bound
                 /\ phase' = "sync"
                 /\ cmd' = [cmd EXCEPT !.name = "step_until_final"]
                 /\ UNCHANGED <<queue, nextEpoch, runVars, result, terminated>>
            ELSE IF cmd.name = "step_until"
            THEN \* now = target: the code re-writes the same time and calls
                 \* synchronize once more; no property constrains that call
                 /\ phase' = "sync"
                 /\ cmd' = [cmd EXCEPT !.name = "step_until_same"]
                 /\ UNCHANGED <<now, queue, nextEpoch, runVars, result, terminated>>
            ELSE /\ Return(ROk)
                 /\ UNCHANGED <<now, queue, nextEpoch, cmd, runVars>>
       ELSE LET t     == MinTime(DueSet)
                batch == {a \in LiveSet : a.time = t}
                \* cancelled entries not later than t are discarded by the pull loop
                dead  == {a \in queue : ~Live(a) /\ a.time <= t}
                per   == SortByEp({a \in batch : a.per > 0})
                reins == {[per[i] EXCEPT !.ep = nextEpoch + i - 1, !.time = t + per[i].per]
                             : i \in 1..Len(per)}
                groups == [o \in Origins |-> SortByEp({a \in batch : a.origin = o})]
                RECURSIVE DeliverAll(_, _)
                DeliverAll(mb, os) ==
                    IF os = {} THEN mb
                    ELSE LET o == CHOOSE x \in os : TRUE
                         IN  DeliverAll(Deliver(mb, groups[o], t), os \ {o})
            IN  /\ now' = t
                /\ queue' = ((queue \ batch) \ dead) \cup reins
                /\ nextEpoch' = nextEpoch + Len(per)
                /\ mbox' = DeliverAll(mbox, Origins)
                /\ orphan' = orphan + CountTargets(batch, "ORPHAN")
                /\ pendErr' = IF \E a \in batch : a.cls = "act" /\
                                    \E i \in 1..Len(Targets(a)) : Targets(a)[i] = "DEAD"
                              THEN {RNoRecipient("")} ELSE {}
                /\ phase' = "sync"
                /\ UNCHANGED <<cmd, running, blocked, result, terminated>>
    /\ UNCHANGED <<cancelled, slots, ghost>>

(* Clock::synchronize(now).  lag = 0 means Synchronized. *)
DoSync(lag) ==
    /\ phase = "sync"
    /\ synced' = Append(synced, now)
    /\ IF Tolerance >= 0 /\ lag > Tolerance
       THEN \* the redundant call of step_until(now) is not a step to a new time:
            \* whether its lag is acted upon is left open
            /\ \/ Return(ROutOfSync(lag))
               \/ cmd.name = "step_until_same" /\ Return(ROk)
            /\ UNCHANGED cmd
       ELSE IF cmd.name \in {"step_until_final", "step_until_same"}
       THEN /\ Return(ROk)
            /\ UNCHANGED cmd
       ELSE /\ phase' = "run"
            /\ UNCHANGED <<cmd, result, terminated>>
    /\ UNCHANGED <<now, queue, nextEpoch, cancelled, slots, runVars, fired, sched, cancelPos, termAt>>

(* The extra synchronize of step_until(now) with nothing due is optional. *)
SkipSameSync ==
    /\ phase = "sync"
    /\ cmd.name = "step_until_same"
    /\ Return(ROk)
    /\ UNCHANGED <<now, queue, nextEpoch, cancelled, slots, cmd, runVars, ghost>>

-----------------------------------------------------------------------------
(* Run phase *)

Idle(m) == IF running[m].prog = 0 THEN TRUE
           ELSE running[m].pc > Len(Prog[running[m].prog]) /\ m \notin blocked

CanTake(m, s) == /\ phase = "run" /\ Idle(m) /\ m \notin blocked /\ mbox[m][s] # <<>>

(* A cancelled keyed event is discarded by the model when it reaches it. *)
HSkip(m, s) ==
    /\ CanTake(m, s)
    /\ LET msg == Head(mbox[m][s])
       IN  /\ msg.cls = "ev" /\ msg.key # 0 /\ msg.key \in cancelled
           /\ mbox' = [mbox EXCEPT ![m][s] = Tail(@)]
    /\ UNCHANGED <<now, queue, nextEpoch, cancelled, slots, terminated, phase, cmd,
                   running, blocked, orphan, pendErr, result, ghost>>

(* A model takes the next message of one of its senders out of its mailbox *)
(* and starts processing it: this is where a keyed event re-reads its key   *)
(* (HSkip is the other outcome).  The handler body starts with HStart; the  *)
(* two are separate steps because only the second one can be observed.      *)
HTake(m, s) ==
    /\ CanTake(m, s)
    /\ LET msg == Head(mbox[m][s])
       IN  /\ ~(msg.cls = "ev" /\ msg.key # 0 /\ msg.key \in cancelled)
           /\ mbox' = [mbox EXCEPT ![m][s] = Tail(@)]
           /\ running' = [running EXCEPT ![m] = [prog |-> msg.prog, pc |-> 0, from |-> s]]
           /\ fired' = [fired EXCEPT ![m] = Append(@, [time |-> now, due |-> msg.due, model |-> m, prog |-> msg.prog,
                                      origin |-> msg.origin, ep |-> msg.ep, from |-> s,
                                      sid |-> msg.sid, key |-> msg.key, akey |-> msg.akey,
                                      cls |-> msg.cls, nsync |-> Len(synced)])]
    /\ UNCHANGED <<now, queue, nextEpoch, cancelled, slots, terminated, phase, cmd,
                   blocked, orphan, pendErr, result, synced, sched, cancelPos, termAt>>

(* HTake immediately followed by HStart, as one step: what happens whenever  *)
(* nothing else intervenes (always so on the single-threaded executor).     *)
HTakeStart(m, s) ==
    /\ CanTake(m, s)
    /\ LET msg == Head(mbox[m][s])
       IN  /\ ~(msg.cls = "ev" /\ msg.key # 0 /\ msg.key \in cancelled)
           /\ mbox' = [mbox EXCEPT ![m][s] = Tail(@)]
           /\ running' = [running EXCEPT ![m] = [prog |-> msg.prog, pc |-> 1, from |-> s]]
           /\ fired' = [fired EXCEPT ![m] = Append(@, [time |-> now, due |-> msg.due, model |-> m, prog |-> msg.prog,
                                      origin |-> msg.origin, ep |-> msg.ep, from |-> s,
                                      sid |-> msg.sid, key |-> msg.key, akey |-> msg.akey,
                                      cls |-> msg.cls, nsync |-> Len(synced)])]
    /\ UNCHANGED <<now, queue, nextEpoch, cancelled, slots, terminated, phase, cmd,
                   blocked, orphan, pendErr, result, synced, sched, cancelPos, termAt>>

(* The handler of the message taken by m starts executing (it reads the time here). *)
HStart(m) ==
    /\ phase = "run"
    /\ running[m].prog # 0 /\ running[m].pc = 0
    /\ running' = [running EXCEPT ![m].pc = 1]
    /\ UNCHANGED <<now, queue, nextEpoch, cancelled, slots, terminated, phase, cmd, mbox,
                   blocked, orphan, pendErr, result, ghost>>

CurOp(m) == Prog[running[m].prog][running[m].pc]
HasOp(m) == /\ phase = "run"
            /\ IF running[m].pc >= 1 THEN running[m].pc <= Len(Prog[running[m].prog]) ELSE FALSE
            /\ m \notin blocked

Advance(m) == running' = [running EXCEPT ![m].pc = @ + 1]

(* One operation of a handler.  outcome is the value the operation returns *)
(* to the handler (only scheduling operations have one).                   *)
HOp(m, outcome) ==
    /\ HasOp(m)
    /\ LET op == CurOp(m) IN
       CASE op.op = "sched" ->
              LET time == IF op.abs THEN op.d ELSE now + op.d
              IN  /\ outcome \in SchedOutcomes(time, op.kind, op.per)
                  /\ ApplySched(outcome, time, m, "ev", m, op.prog, op.kind, op.per, op.slot)
                  /\ Advance(m)
                  /\ UNCHANGED <<cancelled, mbox, blocked, orphan, pendErr, cancelPos>>
         [] op.op = "cancel" ->
              /\ outcome = "ok"
              /\ cancelled' = IF slots[op.slot] = 0 THEN cancelled ELSE cancelled \cup {slots[op.slot]}
              /\ NoteCancel(slots[op.slot])
              /\ Advance(m)
              /\ UNCHANGED <<queue, nextEpoch, slots, mbox, blocked, orphan, pendErr, sched>>
         [] op.op = "send" ->
              LET tg == Conn[m][op.port]
                  m0 == DirectMsg(op.prog, "ev", m)
              IN  /\ outcome = "ok"
                  /\ IF tg \in Models
                     THEN /\ mbox' = [mbox EXCEPT ![tg][m] = Append(@, m0)]
                          /\ Advance(m)
                          /\ UNCHANGED <<orphan, pendErr>>
                     ELSE IF tg = "ORPHAN"
                     THEN /\ orphan' = orphan + 1
                          /\ Advance(m)
                          /\ UNCHANGED <<mbox, pendErr>>
                     ELSE \* DEAD: the send panics with SendError inside model m
                          /\ pendErr' = pendErr \cup {RNoRecipient(m)}
                          /\ running' = [running EXCEPT ![m].pc = Len(Prog[running[m].prog]) + 1]
                          /\ UNCHANGED <<mbox, orphan>>
                  /\ UNCHANGED <<queue, nextEpoch, slots, cancelled, blocked, sched, cancelPos>>
         [] op.op = "bcast" ->
              \* one output port connected to every target of Conn[m] (all of them models): the message is cloned
              \* for each recipient
              LET m0 == DirectMsg(op.prog, "ev", m) IN
              /\ outcome = "ok"
              /\ mbox' = [t \in Models |->
                            IF \E i \in 1..Len(Conn[m]) : Conn[m][i] = t THEN [mbox[t] EXCEPT ![m] = Append(@, m0)]
                            ELSE mbox[t]]
              /\ Advance(m)
              /\ UNCHANGED <<queue, nextEpoch, slots, cancelled, blocked, orphan, pendErr, sched, cancelPos>>
         [] op.op = "panic" ->
              /\ outcome = "ok"
              /\ pendErr' = pendErr \cup {RPanic(m)}
              /\ running' = [running EXCEPT ![m].pc = Len(Prog[running[m].prog]) + 1]
              /\ UNCHANGED <<queue, nextEpoch, slots, cancelled, mbox, blocked, orphan, sched, cancelPos>>
         [] op.op = "qself" ->
              \* a query sent to the model itself: the request sits in its own
              \* mailbox and the handler never resumes
              /\ outcome = "ok"
              /\ mbox' = [mbox EXCEPT ![m][m] = Append(@, DirectMsg(op.prog, "qry", m))]
              /\ blocked' = blocked \cup {m}
              /\ UNCHANGED <<queue, nextEpoch, slots, cancelled, running, orphan, pendErr, sched, cancelPos>>
         [] op.op = "sleep" ->
              \* a handler overrunning the step timeout (always its last operation)
              /\ outcome = "ok"
              /\ pendErr' = IF TimeoutOn THEN pendErr \cup {RTimeout} ELSE pendErr
              /\ Advance(m)
              /\ UNCHANGED <<queue, nextEpoch, slots, cancelled, mbox, blocked, orphan, sched, cancelPos>>
         [] op.op = "nop" ->
              /\ outcome = "ok"
              /\ Advance(m)
              /\ UNCHANGED <<queue, nextEpoch, slots, cancelled, mbox, blocked, orphan, pendErr, sched, cancelPos>>
    /\ UNCHANGED <<now, terminated, phase, cmd, result, synced, fired, termAt>>

NothingRunnable ==
    /\ \A m \in Models : ~HasOp(m) /\ ~(running[m].prog # 0 /\ running[m].pc = 0)
    /\ \A m \in Models : \A s \in Senders : ~CanTake(m, s)

BoxLen(m) ==
    LET F[S \in SUBSET Senders] ==
          IF S = {} THEN 0 ELSE LET s == CHOOSE x \in S : TRUE IN Len(mbox[m][s]) + F[S \ {s}]
    IN  F[Senders]

DeadlockList ==
    SelectSeq([i \in 1..Len(ModelSeq) |-> [model |-> ModelSeq[i], n |-> BoxLen(ModelSeq[i])]],
              LAMBDA e : e.n > 0)

(* Executor::run returns because nothing can run any more. *)
Quiesce ==
    /\ phase = "run"
    /\ pendErr = {}
    /\ NothingRunnable
    /\ LET res == IF DeadlockList # <<>> THEN RDeadlock(DeadlockList)
                  ELSE IF orphan > 0 THEN RMsgLoss(orphan)
                  ELSE ROk
       IN  IF res = ROk /\ cmd.name = "step_until" /\ now < cmd.bound
           THEN \* next iteration of step_until
                /\ phase' = "pull"
                /\ UNCHANGED <<result, terminated>>
           ELSE IF res = ROk /\ cmd.name = "query" /\ cmd.target = "DEAD"
           THEN Return(RBadQuery)
           ELSE Return(res)
    /\ UNCHANGED <<now, queue, nextEpoch, cancelled, slots, cmd, runVars, ghost>>

(* Executor::run returns early with a panic / missing recipient / timeout. *)
(* On the multi-threaded executor other handlers may still make progress   *)
(* between the failure and the return, hence no quiescence requirement.    *)
Abort(e) ==
    /\ phase = "run"
    /\ e \in pendErr
    /\ Return(e)
    /\ UNCHANGED <<now, queue, nextEpoch, cancelled, slots, cmd, runVars, ghost>>

(* The command returns to the driver (Ret event). *)
DReturn ==
    /\ phase = "ret"
    /\ phase' = "idle"
    /\ cmd' = NoCmd
    \* whatever is left in mailboxes of a terminated simulation is dead state
    /\ mbox' = [m \in Models |-> EmptyBox]
    /\ running' = [m \in Models |-> NoHandler]
    /\ blocked' = {}
    /\ orphan' = 0
    /\ pendErr' = {}
    /\ termAt' = IF terminated /\ termAt = NotTerminated
                 THEN [now |-> now, nfired |-> [m \in Models |-> Len(fired[m])], nsynced |-> Len(synced)]
                 ELSE termAt
    /\ UNCHANGED <<now, queue, nextEpoch, cancelled, slots, terminated, result,
                   synced, fired, sched, cancelPos>>

=============================================================================
