------------------------------ MODULE MC_Bench ------------------------------
(* Bounded instances of Bench for TLC: init followed by driver commands from a finite alphabet. *)
EXTENDS Bench, Json

CONSTANTS
    Procs,     \* sequence of driver commands [kind, target, prog] issued in this order after init
    EmitFinal  \* TRUE: print the outcome of every complete behaviour (for the confluence comparison)

VARIABLE ncmd

mcvars == <<vars, ncmd>>

MCInit == Init /\ ncmd = 0

Step ==
    \/ \E m \in Models : InitBegin(m) \/ Pop(m) \/ HB(m) \/ OpStart(m) \/ HE(m)
    \/ \E t \in Tasks : OpDone(t) \/ \E i \in 1..8 : Push(t, i)
    \/ Quiesce \/ AbortPanic

MCNext ==
    \/ /\ DInit /\ UNCHANGED ncmd
    \/ /\ ncmd < Len(Procs) /\ phase = "idle" /\ inited = Models
       /\ DProcess(Procs[ncmd + 1].kind, Procs[ncmd + 1].target, Procs[ncmd + 1].prog)
       /\ ncmd' = ncmd + 1
    \/ /\ Step /\ UNCHANGED ncmd
    \/ /\ DReturn /\ UNCHANGED ncmd

MCSpec == MCInit /\ [][MCNext]_mcvars

Multiset(seqn) == [x \in {seqn[i] : i \in 1..Len(seqn)} |-> Cardinality({i \in 1..Len(seqn) : seqn[i] = x})]

Final == phase = "ret" /\ (ncmd = Len(Procs) \/ terminated)

(* One line per terminal state: what was handled (as a multiset), the sinks and the result. *)
EmitOutcome ==
    (EmitFinal /\ Final) =>
        PrintT(<<"OUTCOME", ToJson([r |-> result.r,
                                    handled |-> {<<x.model, x.prog, x.kind, Multiset(handled)[x]>> :
                                                    x \in DOMAIN Multiset(handled)},
                                    sinks |-> [s \in Sinks |-> {<<v, Multiset(sinkLog[s])[v]>> :
                                                                  v \in DOMAIN Multiset(sinkLog[s])}]])>>)
=============================================================================
