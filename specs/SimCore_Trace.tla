--------------------------- MODULE SimCore_Trace ---------------------------
(***************************************************************************)
(* Trace validation for SimCore: an ndjson trace recorded from the real    *)
(* nexosim crate by /verif/harness (engine `simcore`) is accepted iff it   *)
(* is a behaviour of SimCore.  One trace file holds many runs of the same  *)
(* bench, separated by `reset` events.                                     *)
(*                                                                         *)
(* Logged events and the SimCore action each one binds to:                 *)
(*   reset                      re-initialisation (SimCore!Init)           *)
(*   sync   t lag               DoSync(lag) with now = t; the very first   *)
(*                              one is the synchronisation done by init    *)
(*   init   m                   Model::init of m ran (after the init sync) *)
(*   cmd    c=sched|cancel|step|step_until|process ...                     *)
(*                              DSchedule / DCancel / DStep / DStepUntil / *)
(*                              DProcess with the logged arguments         *)
(*   begin  m prog from t       HStart(m): the message taken has program   *)
(*                              prog, sender from; the handler saw t = now *)
(*   op     m out               HOp(m, out)                                *)
(*   ret    res t               DReturn with result = res and now = t      *)
(*   drop   counters            the simulation was dropped (C19 accounting)*)
(*   end                        the run is over                            *)
(* Unlogged (silent) actions, inferred by TLC: Pull, SkipSameSync, HTake,  *)
(* HSkip, Quiesce, Abort (and DoSync when the reset event says that        *)
(* synchronize calls were projected away).                                 *)
(*                                                                         *)
(* Wildcards: every event carries a list `wild` of field names that are not *)
(* compared (used by the per-property projections of the checks, see       *)
(* DESIGN.md section 5).                                                   *)
(***************************************************************************)
EXTENDS SimCore_Props, Json, IOUtils

Rec == ndJsonDeserialize(IOEnv.TRACE)

VARIABLES
    l,       \* index of the next event to consume
    boot,    \* "sync" (waiting for the init synchronisation), "init", "done"
    inited,  \* models whose init was logged
    syncSilent, \* TRUE: synchronize calls are not in the trace (projection for properties other than C18)
    mt,        \* TRUE: the run used the thread pool (a key re-check may then precede its logged handler start)
    xreq,      \* request of the concurrent scheduling thread between its xs and xe events (or NoReq)
    xout       \* its outcome once it has taken effect ("none" before)

tvars == <<vars, l, boot, inited, syncSilent, mt, xreq, xout>>

Ev == Rec[l]

IsEvent(e) == l <= Len(Rec) /\ Rec[l].ev = e /\ l' = l + 1

(* Wildcards: the names of the logged fields of the current event that the *)
(* projection in force declared irrelevant.                                 *)
Wild(f) == \E i \in 1..Len(Ev.wild) : Ev.wild[i] = f

NoReq == [c |-> "none"]

TraceInit ==
    /\ Init
    /\ l = 1
    /\ boot = "reset"
    /\ inited = {}
    /\ syncSilent = FALSE
    /\ mt = FALSE
    /\ xreq = NoReq /\ xout = "none"
    /\ TLCSet(1, 0)

(* The fields of the state that Init constrains, re-initialised. *)
Reset ==
    /\ IsEvent("reset")
    /\ boot \in {"reset", "ended"}
    /\ now' = 0 /\ queue' = {} /\ nextEpoch' = 1 /\ cancelled' = {}
    /\ slots' = [s \in {"k1", "k2", "k3"} |-> 0]
    /\ terminated' = FALSE /\ phase' = "idle" /\ cmd' = NoCmd
    /\ mbox' = [m \in Models |-> EmptyBox]
    /\ running' = [m \in Models |-> NoHandler]
    /\ blocked' = {} /\ orphan' = 0 /\ pendErr' = {} /\ result' = ROk
    /\ synced' = <<0>> /\ fired' = [m \in Models |-> <<>>] /\ sched' = {} /\ cancelPos' = <<>>
    /\ termAt' = NotTerminated
    /\ boot' = "sync" /\ inited' = {}
    /\ syncSilent' = Ev.ss
    /\ mt' = (Ev.threads > 1)
    /\ xreq' = NoReq /\ xout' = "none"

(* SimInit::init synchronises on the start time before any init code runs. *)
InitSync ==
    /\ IsEvent("sync")
    /\ boot = "sync"
    /\ Ev.t = 0
    /\ boot' = "init"
    /\ UNCHANGED <<vars, inited, syncSilent, mt, xreq, xout>>

ModelInit ==
    /\ IsEvent("init")
    /\ boot = "init"
    /\ Ev.m \in Models \ inited
    /\ inited' = inited \cup {Ev.m}
    /\ boot' = IF inited' = Models THEN "done" ELSE "init"
    /\ UNCHANGED <<vars, syncSilent, mt, xreq, xout>>

Booted == boot = "done"

TCmd ==
    /\ IsEvent("cmd")
    /\ Booted
    /\ CASE Ev.c = "sched"  -> DSchedule(Ev.cls, Ev.target, Ev.abs, Ev.d, Ev.kind, Ev.per, Ev.slot, Ev.prog, Ev.out)
         [] Ev.c = "cancel" -> DCancel(Ev.slot)
         [] Ev.c = "step"   -> DStep
         [] Ev.c = "step_until" -> DStepUntil(Ev.abs, Ev.d)
         [] Ev.c = "process" -> DProcess(Ev.kind, Ev.target, Ev.prog)
    /\ UNCHANGED <<boot, inited, syncSilent, mt, xreq, xout>>

TSync ==
    /\ IsEvent("sync")
    /\ Booted
    /\ Wild("t") \/ Ev.t = now
    /\ DoSync(Ev.lag)
    /\ UNCHANGED <<boot, inited, syncSilent, mt, xreq, xout>>

TBegin ==
    /\ IsEvent("begin")
    /\ Booted
    /\ Ev.m \in Models /\ Ev.from \in Senders
    /\ \/ /\ HStart(Ev.m)
          /\ running[Ev.m].prog = Ev.prog /\ running[Ev.m].from = Ev.from
       \/ /\ HTakeStart(Ev.m, Ev.from)
          /\ Head(mbox[Ev.m][Ev.from]).prog = Ev.prog
    /\ Wild("t") \/ Ev.t = now
    /\ UNCHANGED <<boot, inited, syncSilent, mt, xreq, xout>>

TOp ==
    /\ IsEvent("op")
    /\ Booted
    /\ Ev.m \in Models
    /\ HOp(Ev.m, Ev.out)
    /\ UNCHANGED <<boot, inited, syncSilent, mt, xreq, xout>>

ResMatches(logged, res) ==
    \/ Wild("res")
    \/ /\ logged.r = res.r
       /\ Wild("res.model") \/ logged.model = res.model
       /\ Wild("res.n") \/ logged.n = res.n
       /\ Wild("res.list") \/ logged.list = res.list

TRet ==
    /\ IsEvent("ret")
    /\ Booted
    /\ DReturn
    /\ ResMatches(Ev.res, result)
    /\ Wild("t") \/ Ev.t = now
    /\ UNCHANGED <<boot, inited, syncSilent, mt, xreq, xout>>

(* C19: the simulation (with its handles) is dropped when it is at rest: every model, message   *)
(* and handler future created during the run has been released exactly once, the worker threads *)
(* are gone and no model code ran meanwhile.  A step time-out abandons the overrunning           *)
(* computation by design, in which case nothing is required.                                     *)
Balanced(pair) == pair[1] = pair[2]

TDrop ==
    /\ IsEvent("drop")
    /\ Booted /\ phase = "idle"
    /\ \/ Wild("drop")
       \/ Ev.abandoned
       \/ /\ Balanced(Ev.models) /\ Ev.models[1] = Cardinality(Models)
          /\ Balanced(Ev.payloads) /\ Balanced(Ev.handlers)
          /\ Balanced(Ev.threads)
          /\ Ev.late = 0
    /\ boot' = "dropped"
    /\ UNCHANGED <<vars, inited, syncSilent, mt, xreq, xout>>

TEnd ==
    /\ IsEvent("end")
    /\ boot = "dropped"
    /\ boot' = "ended"
    /\ UNCHANGED <<vars, inited, syncSilent, mt, xreq, xout>>

Silent ==
    /\ Booted
    /\ \/ Pull
       \* (when synchronize calls are projected away the redundant call of
       \* step_until(now) is unobservable: always take it, to keep the search linear)
       \/ ~syncSilent /\ SkipSameSync
       \/ \E m \in Models, s \in Senders : HSkip(m, s)
       \* the moment a message is taken is only observable for keyed events
       \* (it is where the key is re-read); other takes are fused with the
       \* logged start of the handler, which keeps the search linear
       \/ \E m \in Models, s \in Senders :
             /\ mt /\ mbox[m][s] # <<>> /\ Head(mbox[m][s]).key # 0
             /\ HTake(m, s)
       \/ syncSilent /\ DoSync(0)
       \/ Quiesce
       \/ \E e \in pendErr : Abort(e)
       \* a step time-out is a wall-clock limit: on a loaded machine any run may overrun it, whatever the handlers do.
       \* (Only considered when the next recorded event is a return with Timeout.)
       \/ /\ TimeoutOn /\ phase = "run"
          /\ l <= Len(Rec) /\ Rec[l].ev = "ret" /\ Rec[l].res.r = "timeout"
          /\ Return(RTimeout)
          /\ UNCHANGED <<now, queue, nextEpoch, cancelled, slots, cmd, runVars, ghost>>
    /\ UNCHANGED <<l, boot, inited, syncSilent, mt, xreq, xout>>

(* C08: a request from the scheduling thread.  xs is logged before the call and xe after *)
(* it returned; the request takes effect atomically somewhere in between (XApply).       *)
TXStart ==
    /\ IsEvent("xs") /\ Booted /\ xreq = NoReq
    /\ xreq' = Ev /\ xout' = "none"
    /\ UNCHANGED <<vars, boot, inited, syncSilent, mt>>

XApply ==
    /\ Booted /\ xreq # NoReq /\ xout = "none"
    /\ \E out \in {"ok", "invalid_time", "null_period"} :
          /\ XSchedule(xreq.target, xreq.abs, xreq.d, xreq.kind, xreq.per, xreq.slot, xreq.prog, out)
          /\ xout' = out
    /\ UNCHANGED <<l, boot, inited, syncSilent, mt, xreq>>

TXEnd ==
    /\ IsEvent("xe") /\ Booted /\ xreq # NoReq
    /\ xout = Ev.out
    /\ xreq' = NoReq /\ xout' = "none"
    /\ UNCHANGED <<vars, boot, inited, syncSilent, mt>>

TraceNext == TXStart \/ XApply \/ TXEnd \/ Reset \/ InitSync \/ ModelInit \/ TCmd \/ TSync \/ TBegin \/ TOp \/ TRet \/ TDrop \/ TEnd \/ Silent

TraceSpec == TraceInit /\ [][TraceNext]_tvars

(* Progress register: the largest number of events consumed on any path. *)
Track == IF l - 1 > TLCGet(1) THEN TLCSet(1, l - 1) ELSE TRUE

TraceAccepted ==
    LET n == TLCGet(1) IN
    IF n = Len(Rec) THEN TRUE
    ELSE /\ PrintT(<<"TRACE_REJECTED", n, ToJson(Rec[n + 1])>>)
         /\ FALSE
=============================================================================
