---------------------------- MODULE TaskSet_Trace ----------------------------
(***************************************************************************)
(* Trace validation for TaskSet: real waker threads call wake_by_ref on    *)
(* the real structure while an owner thread takes / inspects / discards;   *)
(* each operation is logged at its start and at its end (with the result   *)
(* for owner operations) under one mutex, and TLC searches an interleaving *)
(* of the atomic steps of TaskSet.tla that explains the results.  The      *)
(* invariants (WellFormed, NoLostTask, NoLostNotify) are evaluated on it;  *)
(* the final event drains the set: every wake-up that took effect since    *)
(* its task was last yielded must be there.                                *)
(***************************************************************************)
EXTENDS TaskSet, Json, IOUtils

Rec0 == ndJsonDeserialize(IOEnv.TRACE)

VARIABLES l, open, oopen

tvars == <<vars, l, open, oopen>>

Ev == Rec0[l]
IsEvent(e) == l <= Len(Rec0) /\ Rec0[l].ev = e /\ l' = l + 1

TraceInit == Init /\ l = 1 /\ open = [t \in Wakers |-> FALSE] /\ oopen = FALSE /\ TLCSet(1, 0)

Reset ==
    /\ IsEvent("reset")
    /\ head' = [idx |-> EMPTY, cd |-> 0]
    /\ next' = [i \in Tasks |-> SLEEPING]
    /\ notified' = 0
    /\ wpc' = [t \in Wakers |-> "idle"]
    /\ wl' = [t \in Wakers |-> [i |-> 0, n |-> 0, h |-> [idx |-> EMPTY, cd |-> 0], left |-> MaxWakes]]
    /\ opc' = "idle"
    /\ ol' = [h |-> [idx |-> EMPTY, cd |-> 0], ni |-> EMPTY, c |-> 0, out |-> <<>>, keep |-> 0, left |-> MaxOwner, op |-> "none"]
    /\ pendingWake' = [i \in Tasks |-> FALSE]
    /\ armed' = 0 /\ wakesSinceArm' = {} /\ notifiedAtArm' = 0
    /\ hist' = <<>>
    /\ open' = [t \in Wakers |-> FALSE] /\ oopen' = FALSE

(* start of a wake_by_ref(i) on thread t *)
TWStart ==
    /\ IsEvent("ws")
    /\ Ev.t \in Wakers /\ ~open[Ev.t]
    /\ WStart(Ev.t)
    /\ wl'[Ev.t].i = Ev.i
    /\ open' = [open EXCEPT ![Ev.t] = TRUE]
    /\ UNCHANGED oopen

TWEnd ==
    /\ IsEvent("we")
    /\ Ev.t \in Wakers /\ open[Ev.t] /\ wpc[Ev.t] = "idle"
    /\ open' = [open EXCEPT ![Ev.t] = FALSE]
    /\ UNCHANGED <<vars, oopen>>

(* start of an owner operation *)
TOStart ==
    /\ IsEvent("os")
    /\ ~oopen
    /\ \/ /\ Ev.op = "take" /\ OStartTake /\ ol'.c = Ev.arg /\ ol'.keep = Ev.keep
       \/ /\ Ev.op = "has" /\ OHas
       \/ /\ Ev.op = "discard" /\ ODiscard
    /\ oopen' = TRUE
    /\ UNCHANGED open

LastOwner == LET idx == {k \in 1..Len(hist) : hist[k].op # "wake"} IN hist[CHOOSE k \in idx : \A j \in idx : j <= k]

TOEnd ==
    /\ IsEvent("oe")
    /\ oopen /\ opc = "idle"
    /\ LastOwner.res = Ev.res
    /\ oopen' = FALSE
    /\ UNCHANGED <<vars, open>>

Internal ==
    /\ l <= Len(Rec0)
    /\ \/ \E t \in Wakers : open[t] /\ (WLoopA(t) \/ WCasNext(t) \/ WCasHead(t) \/ WSwap(t) \/ WNotify(t))
       \/ oopen /\ (OTakeCas \/ OIter \/ ODropLoad \/ ODropStore \/ ODone \/ OHasLoad \/ ODiscardLoad)
    /\ UNCHANGED <<l, open, oopen>>

TraceNext == Reset \/ TWStart \/ TWEnd \/ TOStart \/ TOEnd \/ Internal

TraceSpec == TraceInit /\ [][TraceNext]_tvars

Track == IF l - 1 > TLCGet(1) THEN TLCSet(1, l - 1) ELSE TRUE

TraceAccepted ==
    LET n == TLCGet(1) IN
    IF n = Len(Rec0) THEN TRUE
    ELSE /\ PrintT(<<"TRACE_REJECTED", n, ToJson(Rec0[n + 1])>>)
         /\ FALSE
=============================================================================
