------------------------------- MODULE SeqLock -------------------------------
(***************************************************************************)
(* The simulation-time cell (nexosim/src/util/sync_cell.rs over            *)
(* nexosim/src/time/monotonic_time.rs): a sequence lock around a value     *)
(* made of two separately stored words (seconds, nanoseconds), on an       *)
(* operational release/acquire memory model with fences.                   *)
(*                                                                         *)
(* Memory model (view based, no load buffering, append-only modification   *)
(* order - every location here has a single writer):                       *)
(*   mem[x]   sequence of messages [val, view]; a message's position is    *)
(*            its timestamp; view is the view released with it             *)
(*   cur[t]   what thread t has observed (location -> timestamp)           *)
(*   acq[t]   what t will have observed after its next acquire fence       *)
(*   rel[t]   what t's relaxed stores release (its view at the last        *)
(*            release fence)                                               *)
(* A load of x may read any message not older than cur[t][x]; an acquire   *)
(* load joins the message's view into cur[t], a relaxed load into acq[t]   *)
(* only; an acquire fence sets cur[t] := acq[t], a release fence sets      *)
(* rel[t] := cur[t]; a release store publishes cur[t], a relaxed store     *)
(* publishes rel[t].                                                       *)
(*                                                                         *)
(* The ordering of every atomic operation of write() / try_read() is a     *)
(* CONSTANT, extracted from the source by the check (tools/orderings.py):  *)
(* weakening any of them makes TLC exhibit a torn or stale read.           *)
(***************************************************************************)
EXTENDS Naturals, Integers, Sequences, FiniteSets, TLC

CONSTANTS
    Readers,        \* set of reader threads
    NWrites,        \* number of successive updates by the writer
    NReads,         \* number of successful-or-not try_read attempts per reader
    \* orderings: "rlx" | "acq" | "rel"; fences: TRUE if present
    OStoreOdd,      \* store of the odd sequence count        (code: Relaxed)
    FenceW,         \* release fence after it                  (code: present)
    OStoreVal,      \* stores of the two words                 (code: Relaxed)
    OStoreEven,     \* store of the even sequence count        (code: Release)
    OLoadSeq1,      \* first load of the sequence count        (code: Acquire)
    OLoadVal,       \* loads of the two words                  (code: Relaxed)
    FenceR,         \* acquire fence before the re-check       (code: present)
    OLoadSeq2,      \* second load of the sequence count       (code: Relaxed)
    Publish         \* TRUE: the writer also publishes each completed version through a release/acquire flag

Locs == {"seq", "secs", "nanos", "flag"}
Threads == Readers \cup {"w"}

VARIABLES mem, cur, acq, rel, pc, loc, got, pub

vars == <<mem, cur, acq, rel, pc, loc, got, pub>>

ZeroView == [x \in Locs |-> 1]
Join(a, b) == [x \in Locs |-> IF a[x] >= b[x] THEN a[x] ELSE b[x]]

Init ==
    /\ mem = [x \in Locs |-> <<[val |-> 0, view |-> ZeroView]>>]
    /\ cur = [t \in Threads |-> ZeroView]
    /\ acq = [t \in Threads |-> ZeroView]
    /\ rel = [t \in Threads |-> ZeroView]
    /\ pc = [t \in Threads |-> IF t = "w" THEN "w_odd" ELSE "r_seq1"]
    /\ loc = [t \in Threads |-> [k |-> 0, s1 |-> 0, a |-> 0, b |-> 0, n |-> 0, last |-> 0, known |-> 0]]
    /\ got = [t \in Readers |-> <<>>]     \* successful reads: [a, b, known]
    /\ pub = 0                            \* last version whose completion was published through the flag

(* store by t of v at x with ordering o *)
Store(t, x, v, o) ==
    LET ts  == Len(mem[x]) + 1
        c1  == [cur[t] EXCEPT ![x] = ts]
        mv  == IF o = "rel" THEN c1 ELSE [rel[t] EXCEPT ![x] = ts]
    IN  /\ mem' = [mem EXCEPT ![x] = Append(@, [val |-> v, view |-> mv])]
        /\ cur' = [cur EXCEPT ![t] = c1]
        /\ acq' = [acq EXCEPT ![t] = Join(@, c1)]
        /\ UNCHANGED rel

(* load by t at x with ordering o reading the message of timestamp i *)
Load(t, x, o, i) ==
    /\ i \in cur[t][x]..Len(mem[x])
    /\ LET m  == mem[x][i]
           c1 == [cur[t] EXCEPT ![x] = i]
       IN  /\ cur' = [cur EXCEPT ![t] = IF o = "acq" THEN Join(c1, m.view) ELSE c1]
           /\ acq' = [acq EXCEPT ![t] = Join(Join(@, c1), m.view)]
    /\ UNCHANGED <<mem, rel>>

-----------------------------------------------------------------------------
(* SyncCell::write(k): the k-th update writes the value (k, k) *)
WOdd ==
    /\ pc["w"] = "w_odd" /\ loc["w"].k < NWrites
    /\ Store("w", "seq", 2 * loc["w"].k + 1, OStoreOdd)
    /\ pc' = [pc EXCEPT !["w"] = "w_fence"]
    /\ UNCHANGED <<loc, got, pub>>

WFence ==
    /\ pc["w"] = "w_fence"
    /\ rel' = IF FenceW THEN [rel EXCEPT !["w"] = cur["w"]] ELSE rel
    /\ pc' = [pc EXCEPT !["w"] = "w_secs"]
    /\ UNCHANGED <<mem, cur, acq, loc, got, pub>>

WSecs ==
    /\ pc["w"] = "w_secs"
    /\ Store("w", "secs", loc["w"].k + 1, OStoreVal)
    /\ pc' = [pc EXCEPT !["w"] = "w_nanos"]
    /\ UNCHANGED <<loc, got, pub>>

WNanos ==
    /\ pc["w"] = "w_nanos"
    /\ Store("w", "nanos", loc["w"].k + 1, OStoreVal)
    /\ pc' = [pc EXCEPT !["w"] = "w_even"]
    /\ UNCHANGED <<loc, got, pub>>

WEven ==
    /\ pc["w"] = "w_even"
    /\ Store("w", "seq", 2 * loc["w"].k + 2, OStoreEven)
    /\ loc' = [loc EXCEPT !["w"].k = @ + 1]
    /\ pc' = [pc EXCEPT !["w"] = IF Publish THEN "w_pub" ELSE "w_odd"]
    /\ UNCHANGED <<got, pub>>

(* the writer tells the readers, through a release store, that version k is complete *)
WPub ==
    /\ pc["w"] = "w_pub"
    /\ Store("w", "flag", loc["w"].k, "rel")
    /\ pub' = loc["w"].k
    /\ pc' = [pc EXCEPT !["w"] = "w_odd"]
    /\ UNCHANGED <<loc, got>>

-----------------------------------------------------------------------------
(* SyncCellReader::try_read *)

(* optionally learn, through an acquire load of the flag, that some version is complete *)
RFlag(t) ==
    /\ pc[t] = "r_seq1" /\ Publish /\ loc[t].n < NReads
    /\ \E i \in 1..Len(mem["flag"]) :
          /\ Load(t, "flag", "acq", i)
          /\ loc' = [loc EXCEPT ![t].known = IF mem["flag"][i].val > @ THEN mem["flag"][i].val ELSE @]
    /\ UNCHANGED <<pc, got, pub>>

RSeq1(t) ==
    /\ pc[t] = "r_seq1" /\ loc[t].n < NReads
    /\ \E i \in 1..Len(mem["seq"]) :
          /\ Load(t, "seq", OLoadSeq1, i)
          /\ LET s == mem["seq"][i].val IN
             IF s % 2 = 1
             THEN /\ loc' = [loc EXCEPT ![t].n = @ + 1]            \* Err: write in progress
                  /\ UNCHANGED pc
             ELSE /\ loc' = [loc EXCEPT ![t].s1 = s]
                  /\ pc' = [pc EXCEPT ![t] = "r_secs"]
    /\ UNCHANGED <<got, pub>>

RSecs(t) ==
    /\ pc[t] = "r_secs"
    /\ \E i \in 1..Len(mem["secs"]) :
          /\ Load(t, "secs", OLoadVal, i)
          /\ loc' = [loc EXCEPT ![t].a = mem["secs"][i].val]
    /\ pc' = [pc EXCEPT ![t] = "r_nanos"]
    /\ UNCHANGED <<got, pub>>

RNanos(t) ==
    /\ pc[t] = "r_nanos"
    /\ \E i \in 1..Len(mem["nanos"]) :
          /\ Load(t, "nanos", OLoadVal, i)
          /\ loc' = [loc EXCEPT ![t].b = mem["nanos"][i].val]
    /\ pc' = [pc EXCEPT ![t] = "r_fence"]
    /\ UNCHANGED <<got, pub>>

RFence(t) ==
    /\ pc[t] = "r_fence"
    /\ cur' = IF FenceR THEN [cur EXCEPT ![t] = acq[t]] ELSE cur
    /\ pc' = [pc EXCEPT ![t] = "r_seq2"]
    /\ UNCHANGED <<mem, acq, rel, loc, got, pub>>

RSeq2(t) ==
    /\ pc[t] = "r_seq2"
    /\ \E i \in 1..Len(mem["seq"]) :
          /\ Load(t, "seq", OLoadSeq2, i)
          /\ IF mem["seq"][i].val = loc[t].s1
             THEN got' = [got EXCEPT ![t] = Append(@, [a |-> loc[t].a, b |-> loc[t].b, known |-> loc[t].known])]
             ELSE UNCHANGED got
    /\ loc' = [loc EXCEPT ![t].n = @ + 1]
    /\ pc' = [pc EXCEPT ![t] = "r_seq1"]
    /\ UNCHANGED pub

Next ==
    \/ WOdd \/ WFence \/ WSecs \/ WNanos \/ WEven \/ WPub
    \/ \E t \in Readers : RFlag(t) \/ RSeq1(t) \/ RSecs(t) \/ RNanos(t) \/ RFence(t) \/ RSeq2(t)

Spec == Init /\ [][Next]_vars

-----------------------------------------------------------------------------
(* C15 *)

(* a read never mixes the seconds of one time with the nanoseconds of another *)
NotTorn == \A t \in Readers : \A i \in 1..Len(got[t]) : got[t][i].a = got[t][i].b

(* a reader never obtains a value older than one it has already observed *)
Monotone == \A t \in Readers : \A i, j \in 1..Len(got[t]) : i < j => got[t][i].a <= got[t][j].a

(* ... nor older than one that was published to it by synchronisation *)
NotOlderThanPublished == \A t \in Readers : \A i \in 1..Len(got[t]) : got[t][i].a >= got[t][i].known

(* every value returned is one the simulation actually had *)
ValuesWritten == \A t \in Readers : \A i \in 1..Len(got[t]) : got[t][i].a \in 0..NWrites
=============================================================================
