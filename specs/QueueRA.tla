------------------------------- MODULE QueueRA -------------------------------
(***************************************************************************)
(* The mailbox queue (nexosim/src/channel/queue.rs) on an operational      *)
(* release/acquire memory model: the companion of MpscQueue.tla, which     *)
(* transcribes the position arithmetic and explores the interleavings      *)
(* under sequential consistency.  The arithmetic is the same (position =  *)
(* sequence count | closed flag | index; a slot is free for the push at    *)
(* position p when its stamp is p, holds that push's message when it is    *)
(* p + 1 and is handed to the next lap with p + R); close is left out.     *)
(* The subject here is what each thread is entitled to see:                *)
(*                                                                         *)
(*   mem[x]   sequence of messages [val, view] of location x; a message's  *)
(*            position is its timestamp (stores append: every location is  *)
(*            either written by read-modify-writes only - enqueue_pos - or  *)
(*            by stores that the protocol orders - the stamps)             *)
(*   cur[t]   what thread t has observed (location -> timestamp)           *)
(*                                                                         *)
(* A load of x may read any message not older than cur[t][x]; an acquire   *)
(* load joins the message's view into cur[t]; a release store publishes    *)
(* cur[t], a relaxed store publishes nothing but itself; a read-modify-    *)
(* write reads the latest message and carries its view on (release         *)
(* sequence).  The message cells are plain memory: an access by a thread   *)
(* that has not observed the cell's latest write is a data race.           *)
(*                                                                         *)
(* The ordering of every atomic operation of push / pop / MessageBorrow::  *)
(* drop is a CONSTANT extracted from the source by the check               *)
(* (tools/orderings.py, extract_queue).                                    *)
(***************************************************************************)
EXTENDS Naturals, Integers, Sequences, FiniteSets, TLC

CONSTANTS
    Cap,            \* capacity
    Producers,      \* set of producer threads
    NPush,          \* push attempts per producer
    NPop,           \* pop attempts of the consumer
    \* orderings: "rlx" | "acq" | "rel" | "acqrel"
    OPLoadPos,      \* push: enqueue_pos.load                      (code: Relaxed)
    OPLoadStamp,    \* push: slot.stamp.load                       (code: Acquire)
    OPCas,          \* push: enqueue_pos.compare_exchange, success (code: Relaxed)
    OPStoreStamp,   \* push: slot.stamp.store                      (code: Release)
    OCLoadStamp,    \* pop:  slot.stamp.load                       (code: Acquire)
    OCStoreStamp,   \* MessageBorrow::drop: slot.stamp.store       (code: Release)
    \* program order of the plain access and the publication (also extracted)
    PushPublishesLast,  \* push writes the message, then stores the stamp        (code: TRUE)
    DropPublishesLast   \* the borrow's drop vacates the cell, then stores the stamp (code: TRUE)

RECURSIVE NPow2From(_, _)
NPow2From(n, p) == IF p >= n THEN p ELSE NPow2From(n, 2 * p)
P == NPow2From(Cap, 1)     \* closed-channel flag (never set here)
R == 2 * P                 \* right_mask + 1
Idx(pos) == pos % R
NextPos(pos) == IF Idx(pos + 1) < Cap THEN pos + 1 ELSE pos - (pos % R) + R
(* number of positions between two positions *)
Ordinal(pos) == (pos \div R) * Cap + Idx(pos)

Slots == 0..(Cap - 1)
Locs == {<<"enq", 0>>} \cup {<<"stamp", i>> : i \in Slots} \cup {<<"cell", i>> : i \in Slots}
ENQ == <<"enq", 0>>
Threads == Producers \cup {"cons"}

Acq(o) == o \in {"acq", "acqrel"}
Rel(o) == o \in {"rel", "acqrel"}

VARIABLES mem, cur, pc, loc, got, bad

vars == <<mem, cur, pc, loc, got, bad>>

ZeroView == [x \in Locs |-> 1]
Join(a, b) == [x \in Locs |-> IF a[x] >= b[x] THEN a[x] ELSE b[x]]

InitVal(x) == IF x[1] = "stamp" THEN x[2] ELSE IF x[1] = "cell" THEN <<"vacated">> ELSE 0

Init ==
    /\ mem = [x \in Locs |-> <<[val |-> InitVal(x), view |-> ZeroView]>>]
    /\ cur = [t \in Threads |-> ZeroView]
    /\ pc = [t \in Threads |-> IF t = "cons" THEN "c_stamp" ELSE "p_pos"]
    /\ loc = [t \in Threads |-> [pos |-> 0, stamp |-> 0, n |-> 0, k |-> 0]]
    /\ got = <<>>          \* messages taken by the consumer, in order
    /\ bad = "no"          \* "race:<who>" | "unreachable:<who>" | "assert"

(* store by t of v at x with ordering o *)
Store(t, x, v, o) ==
    LET ts == Len(mem[x]) + 1
        c1 == [cur[t] EXCEPT ![x] = ts]
        mv == IF Rel(o) THEN c1 ELSE [ZeroView EXCEPT ![x] = ts]
    IN  /\ mem' = [mem EXCEPT ![x] = Append(@, [val |-> v, view |-> mv])]
        /\ cur' = [cur EXCEPT ![t] = c1]

(* load by t at x with ordering o of the message with timestamp i *)
Load(t, x, o, i) ==
    /\ i \in cur[t][x]..Len(mem[x])
    /\ LET c1 == [cur[t] EXCEPT ![x] = i]
       IN cur' = [cur EXCEPT ![t] = IF Acq(o) THEN Join(c1, mem[x][i].view) ELSE c1]
    /\ UNCHANGED mem

(* successful read-modify-write by t at x: reads the latest message, writes v *)
Rmw(t, x, v, o) ==
    LET i  == Len(mem[x])
        ts == i + 1
        c0 == IF Acq(o) THEN Join(cur[t], mem[x][i].view) ELSE cur[t]
        c1 == [c0 EXCEPT ![x] = ts]
        mv == Join(IF Rel(o) THEN c1 ELSE [ZeroView EXCEPT ![x] = ts], mem[x][i].view)
    IN  /\ mem' = [mem EXCEPT ![x] = Append(@, [val |-> v, view |-> [mv EXCEPT ![x] = ts]])]
        /\ cur' = [cur EXCEPT ![t] = c1]

(* plain (non-atomic) access to a message cell: racy unless t has observed the latest write *)
Racy(t, x) == cur[t][x] # Len(mem[x])
CellVal(x) == mem[x][Len(mem[x])].val

-----------------------------------------------------------------------------
(* Queue::push *)

PPos(t) ==
    /\ pc[t] = "p_pos" /\ loc[t].n < NPush
    /\ \E i \in 1..Len(mem[ENQ]) :
          /\ Load(t, ENQ, OPLoadPos, i)
          /\ loc' = [loc EXCEPT ![t].pos = mem[ENQ][i].val]
    /\ pc' = [pc EXCEPT ![t] = "p_stamp"]
    /\ UNCHANGED <<got, bad>>

PStamp(t) ==
    /\ pc[t] = "p_stamp"
    /\ LET x == <<"stamp", Idx(loc[t].pos)>> IN
       \E i \in 1..Len(mem[x]) :
          /\ Load(t, x, OPLoadStamp, i)
          /\ LET s == mem[x][i].val IN
             IF s = loc[t].pos
             THEN /\ loc' = [loc EXCEPT ![t].stamp = s]
                  /\ pc' = [pc EXCEPT ![t] = "p_cas"]
             ELSE IF s < loc[t].pos
             THEN /\ loc' = [loc EXCEPT ![t].n = @ + 1]           \* Full
                  /\ pc' = [pc EXCEPT ![t] = "p_pos"]
             ELSE /\ UNCHANGED loc                                 \* lagging position: reload it
                  /\ pc' = [pc EXCEPT ![t] = "p_pos"]
    /\ UNCHANGED <<got, bad>>

PCas(t) ==
    /\ pc[t] = "p_cas"
    /\ LET latest == mem[ENQ][Len(mem[ENQ])].val IN
       IF latest = loc[t].pos
       THEN /\ Rmw(t, ENQ, NextPos(loc[t].pos), OPCas)
            /\ pc' = [pc EXCEPT ![t] = IF PushPublishesLast THEN "p_write" ELSE "p_pub"]
            /\ UNCHANGED loc
       ELSE \* failure: the value returned may be any one the thread can still read
            \E i \in 1..Len(mem[ENQ]) :
               /\ mem[ENQ][i].val # loc[t].pos
               /\ Load(t, ENQ, "rlx", i)
               /\ loc' = [loc EXCEPT ![t].pos = mem[ENQ][i].val]
               /\ pc' = [pc EXCEPT ![t] = "p_stamp"]
    /\ UNCHANGED <<got, bad>>

PWrite(t) ==
    /\ pc[t] = "p_write"
    /\ LET x == <<"cell", Idx(loc[t].pos)>> IN
       /\ bad' = IF bad # "no" THEN bad
                 ELSE IF Racy(t, x) THEN "race:push"
                 ELSE IF CellVal(x) # <<"vacated">> THEN "unreachable:push"
                 ELSE "no"
       /\ Store(t, x, <<"msg", t, loc[t].k>>, "rlx")
    /\ pc' = [pc EXCEPT ![t] = IF PushPublishesLast THEN "p_pub" ELSE "p_pos"]
    /\ loc' = IF PushPublishesLast THEN loc ELSE [loc EXCEPT ![t].n = @ + 1, ![t].k = @ + 1]
    /\ UNCHANGED got

PPub(t) ==
    /\ pc[t] = "p_pub"
    /\ Store(t, <<"stamp", Idx(loc[t].pos)>>, loc[t].stamp + 1, OPStoreStamp)
    /\ loc' = IF PushPublishesLast THEN [loc EXCEPT ![t].n = @ + 1, ![t].k = @ + 1] ELSE loc
    /\ pc' = [pc EXCEPT ![t] = IF PushPublishesLast THEN "p_pos" ELSE "p_write"]
    /\ UNCHANGED <<got, bad>>

-----------------------------------------------------------------------------
(* Queue::pop and the drop of the MessageBorrow; loc["cons"].pos is dequeue_pos (consumer-private) *)

CStamp ==
    /\ pc["cons"] = "c_stamp" /\ loc["cons"].n < NPop
    /\ LET x == <<"stamp", Idx(loc["cons"].pos)>> IN
       \E i \in 1..Len(mem[x]) :
          /\ Load("cons", x, OCLoadStamp, i)
          /\ LET s == mem[x][i].val IN
             IF s = loc["cons"].pos
             THEN /\ loc' = [loc EXCEPT !["cons"].n = @ + 1]      \* Empty
                  /\ UNCHANGED <<pc, bad>>
             ELSE /\ loc' = [loc EXCEPT !["cons"].stamp = s]
                  /\ bad' = IF bad = "no" /\ s # loc["cons"].pos + 1 THEN "assert" ELSE bad
                  /\ pc' = [pc EXCEPT !["cons"] = "c_take"]
    /\ UNCHANGED got

CTake ==
    /\ pc["cons"] = "c_take"
    /\ LET x == <<"cell", Idx(loc["cons"].pos)>> IN
       /\ bad' = IF bad # "no" THEN bad
                 ELSE IF Racy("cons", x) THEN "race:pop"
                 ELSE IF CellVal(x)[1] # "msg" THEN "unreachable:pop"
                 ELSE "no"
       /\ got' = Append(got, CellVal(x))
       /\ Store("cons", x, <<"none">>, "rlx")
    /\ pc' = [pc EXCEPT !["cons"] = IF DropPublishesLast THEN "c_vacate" ELSE "c_pub"]
    /\ UNCHANGED loc

CVacate ==
    /\ pc["cons"] = "c_vacate"
    /\ LET x == <<"cell", Idx(loc["cons"].pos)>> IN
       /\ bad' = IF bad = "no" /\ Racy("cons", x) THEN "race:release" ELSE bad
       /\ Store("cons", x, <<"vacated">>, "rlx")
    /\ pc' = [pc EXCEPT !["cons"] = IF DropPublishesLast THEN "c_pub" ELSE "c_stamp"]
    /\ loc' = IF DropPublishesLast THEN loc ELSE [loc EXCEPT !["cons"].pos = NextPos(@), !["cons"].n = @ + 1]
    /\ UNCHANGED got

CPub ==
    /\ pc["cons"] = "c_pub"
    /\ Store("cons", <<"stamp", Idx(loc["cons"].pos)>>, loc["cons"].stamp + (R - 1), OCStoreStamp)
    /\ loc' = IF DropPublishesLast THEN [loc EXCEPT !["cons"].pos = NextPos(@), !["cons"].n = @ + 1] ELSE loc
    /\ pc' = [pc EXCEPT !["cons"] = IF DropPublishesLast THEN "c_stamp" ELSE "c_vacate"]
    /\ UNCHANGED <<got, bad>>

Next ==
    \/ \E t \in Producers : PPos(t) \/ PStamp(t) \/ PCas(t) \/ PWrite(t) \/ PPub(t)
    \/ CStamp \/ CTake \/ CVacate \/ CPub

Spec == Init /\ [][Next]_vars

-----------------------------------------------------------------------------
(* C12 under the C11 release/acquire fragment *)

(* no access to a message cell races with another thread's write, no `unreachable!()` arm is *)
(* reached and the debug assertion of pop holds                                               *)
NoDataRace == bad = "no"

(* each message is delivered at most once, the messages of one producer in the order sent *)
Msgs(t) == SelectSeq(got, LAMBDA m : m[1] = "msg" /\ m[2] = t)
FifoExactlyOnce ==
    \A t \in Producers : \A i \in 1..Len(Msgs(t)) : Msgs(t)[i][3] = i - 1

(* never more messages held than the capacity: positions claimed minus positions released   *)
(* (decided on MpscQueue.tla; here only meaningful when DropPublishesLast)                    *)
Bounded == Ordinal(mem[ENQ][Len(mem[ENQ])].val) - Ordinal(loc["cons"].pos) <= Cap

(* vacuity guard: expected to be VIOLATED (some behaviour takes a message from a re-used slot) *)
NeverSecondLap == Len(got) <= Cap
=============================================================================
