------------------------------ MODULE MC_Channel ------------------------------
EXTENDS Channel, Json

(* histories for replay: emitted when the length bound is reached or nothing more can be done *)
Terminal ==
    /\ \A f \in Futs : sf[f].st \in {"done", "dropped"}
    /\ ~rxalive \/ (rst = "none" /\ rn = MaxRecv)

EmitHist == (nops = MaxOps \/ Terminal) => PrintT(<<"BEHAVIOUR", ToJson(hist)>>)
=============================================================================
