------------------------------ MODULE Task_Trace ------------------------------
(***************************************************************************)
(* Trace validation for Task: real threads perform handle operations on a  *)
(* real task (V1 facade) and log, under one mutex, the start of each       *)
(* operation - at which point the handle it needs is taken from the shared *)
(* pool - and its end with the result; the atomic steps in between are     *)
(* inferred by TLC.  The final event carries the observables (future and   *)
(* output drop counts, polls, queued Runnables).                           *)
(***************************************************************************)
EXTENDS Task, Json, IOUtils

Rec == ndJsonDeserialize(IOEnv.TRACE)

VARIABLES l, open

tvars == <<vars, l, open>>

Ev == Rec[l]
IsEvent(e) == l <= Len(Rec) /\ Rec[l].ev = e /\ l' = l + 1

TraceInit == Init /\ l = 1 /\ open = [t \in Threads |-> FALSE] /\ TLCSet(1, 0)

Reset ==
    /\ IsEvent("reset")
    /\ st' = State(TRUE, FALSE, IF WithPromise THEN 2 ELSE 1, 1)
    /\ runq' = 1 /\ pool' = 0 /\ token' = TRUE /\ promise' = WithPromise
    /\ fut' = "alive" /\ out' = "none" /\ mem' = "alloc"
    /\ pollers' = {} /\ npolls' = 0
    /\ pc' = [t \in Threads |-> "idle"]
    /\ loc' = [t \in Threads |-> NoLoc]
    /\ nops' = 0 /\ hist' = <<>> /\ bad' = {}
    /\ open' = [t \in Threads |-> FALSE]

TStart ==
    /\ IsEvent("s")
    /\ Ev.t \in Threads /\ ~open[Ev.t]
    /\ Start(Ev.t, Ev.op)
    /\ open' = [open EXCEPT ![Ev.t] = TRUE]

(* result of the last operation of t: kept in loc[t].res by TFinish below *)
TEnd ==
    /\ IsEvent("e")
    /\ Ev.t \in Threads /\ open[Ev.t] /\ pc[Ev.t] = "idle"
    /\ loc[Ev.t].res = Ev.res
    /\ open' = [open EXCEPT ![Ev.t] = FALSE]
    /\ UNCHANGED vars

TFinal ==
    /\ IsEvent("final")
    /\ AllIdle
    /\ Ev.obs.futDropped = (fut = "dropped")
    /\ Ev.obs.outTaken = (out = "taken")
    /\ Ev.obs.outDrops = (IF out \in {"taken", "dropped"} THEN 1 ELSE 0)     \* the output counts its drops
    /\ Ev.obs.npolls = npolls
    /\ Ev.obs.runq = runq
    /\ UNCHANGED <<vars, open>>

Internal ==
    /\ \E t \in Threads :
          /\ open[t]
          /\ RLoad(t) \/ RHead(t) \/ RPollClone(t) \/ RPollWake(t) \/ RPollEnd(t) \/ RComplete(t) \/ RDropOut(t)
             \/ RClear(t) \/ RSub(t) \/ ROrphan(t) \/ CDropFut(t) \/ CClose(t) \/ WVal(t) \/ WRef(t) \/ KClone(t)
             \/ DRef(t) \/ XUpdate(t) \/ XRet(t) \/ XDoneNoPoll(t) \/ XDropFut(t) \/ XUnref(t) \/ PUpdate(t)
    /\ UNCHANGED <<l, open>>

TraceNext == Reset \/ TStart \/ TEnd \/ TFinal \/ Internal

TraceSpec == TraceInit /\ [][TraceNext]_tvars

Track == IF l - 1 > TLCGet(1) THEN TLCSet(1, l - 1) ELSE TRUE

TraceAccepted ==
    LET n == TLCGet(1) IN
    IF n = Len(Rec) THEN TRUE
    ELSE /\ PrintT(<<"TRACE_REJECTED", n, ToJson(Rec[n + 1])>>)
         /\ FALSE
=============================================================================
