----------------------------- MODULE PortClones -----------------------------
(***************************************************************************)
(* Clones of an output port share one connection list (second half of      *)
(* C14): nexosim/src/ports/output.rs over util/cached_rw_lock.rs.  The     *)
(* list lives in a shared cell with an epoch; every clone keeps a cached   *)
(* copy and the epoch at which it was taken; connect() writes the shared   *)
(* list and bumps the epoch, send() refreshes the cache when the epochs    *)
(* differ and then delivers to every connection of the cache.              *)
(* hist records each operation with the sinks a send must reach; TLC       *)
(* exports every behaviour and the harness replays it on real clones.      *)
(***************************************************************************)
EXTENDS Naturals, Sequences, FiniteSets, TLC, Json

CONSTANTS MaxClones, MaxOps

VARIABLES shared, epoch, cache, cepoch, nclones, nsinks, nsent, hist
vars == <<shared, epoch, cache, cepoch, nclones, nsinks, nsent, hist>>

Init ==
    /\ shared = <<>> /\ epoch = 0
    /\ cache = [c \in 1..MaxClones |-> <<>>] /\ cepoch = [c \in 1..MaxClones |-> 0]
    /\ nclones = 1 /\ nsinks = 0 /\ nsent = 0 /\ hist = <<>>

(* Output::connect_sink through clone c: a new sink is appended to the shared list *)
Connect(c) ==
    /\ c \in 1..nclones
    /\ nsinks' = nsinks + 1
    /\ shared' = Append(shared, nsinks + 1)
    /\ epoch' = epoch + 1
    /\ hist' = Append(hist, [op |-> "connect", c |-> c, reach |-> <<>>])
    /\ UNCHANGED <<cache, cepoch, nclones, nsent>>

(* Output::send through clone c *)
Send(c) ==
    /\ c \in 1..nclones
    /\ LET fresh == IF cepoch[c] # epoch THEN shared ELSE cache[c] IN
       /\ cache' = [cache EXCEPT ![c] = fresh]
       /\ cepoch' = [cepoch EXCEPT ![c] = epoch]
       /\ hist' = Append(hist, [op |-> "send", c |-> c, reach |-> fresh])
    /\ nsent' = nsent + 1
    /\ UNCHANGED <<shared, epoch, nclones, nsinks>>

(* Clone of clone c *)
CloneOf(c) ==
    /\ c \in 1..nclones /\ nclones < MaxClones
    /\ nclones' = nclones + 1
    /\ cache' = [cache EXCEPT ![nclones + 1] = cache[c]]
    /\ cepoch' = [cepoch EXCEPT ![nclones + 1] = cepoch[c]]
    /\ hist' = Append(hist, [op |-> "clone", c |-> c, reach |-> <<>>])
    /\ UNCHANGED <<shared, epoch, nsinks, nsent>>

Next == Len(hist) < MaxOps /\ \E c \in 1..MaxClones : Connect(c) \/ Send(c) \/ CloneOf(c)
Spec == Init /\ [][Next]_vars

(* C14: a connection added through any clone is used by every clone's subsequent sends *)
SharedLinks ==
    \A i \in 1..Len(hist) : hist[i].op = "send" =>
        hist[i].reach = [k \in 1..Cardinality({j \in 1..(i - 1) : hist[j].op = "connect"}) |-> k]

Emit == (Len(hist) = MaxOps) => PrintT(<<"BEHAVIOUR", ToJson(hist)>>)
=============================================================================
