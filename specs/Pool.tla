-------------------------------- MODULE Pool --------------------------------
(***************************************************************************)
(* The multi-threaded executor (nexosim/src/executor/mt_executor.rs,       *)
(* mt_executor/pool_manager.rs, mt_executor/injector.rs): worker threads   *)
(* with a LIFO slot, a FIFO local queue and work stealing, an injector     *)
(* queue, the bit set of active workers, the count of searching workers,   *)
(* park/unpark tokens, the per-thread and global counts of in-flight       *)
(* messages, the abort signal and the panic slot; and the executor thread  *)
(* going through spawn / run() / drop.                                     *)
(*                                                                         *)
(* One action per access to a shared variable (interleaving semantics).    *)
(* Tasks are data: Script[t] is a sequence of polls, each a sequence of    *)
(* effects followed by Pending or Ready:                                   *)
(*    <<"wake", u>>   wake task u (schedules it on this worker if it was    *)
(*                    suspended; counted if it is queued or being polled)  *)
(*    <<"msg", d>>    a message was sent (d = 1) or received (d = -1)       *)
(*    <<"panic", 0>>     the task panics                                       *)
(* A poll beyond the script has no effect and returns Pending.             *)
(*                                                                         *)
(* Hook points of the code (verif::point ids) are explicit no-op actions   *)
(* P(w, id) so that Pool_Trace can consume one recorded event per hook     *)
(* point and let TLC infer every step in between.                          *)
(*                                                                         *)
(* The injector (mt_executor/injector.rs) is a vector of buckets behind a  *)
(* mutex plus the atomic hint flag `is_empty`, read without the lock; the  *)
(* local queues overflow into it by half-queue buckets.  LocalCap and      *)
(* BucketCap stand for 256 and 128.                                        *)
(***************************************************************************)
EXTENDS Naturals, Integers, Sequences, FiniteSets, TLC

CONSTANTS
    NW,             \* number of worker threads (ids 0..NW-1 as in the code)
    Tasks,          \* set of task ids (naturals >= 1)
    Script,         \* [Tasks -> Seq([eff: Seq(effect), ready: BOOLEAN])]
    Runs,           \* sequence of sets of tasks: Runs[k] is spawned before the k-th call to run()
    FoldFirst,      \* TRUE: the thread-local message count is folded before the worker deactivates (the code, after 9dc2e1f)
    Recheck,        \* TRUE: the last active worker re-checks the injector before declaring the pool idle (the code)
    HandOver,       \* TRUE: a worker hands the tasks it still holds to the injector when it exits (the code, after 2478541)
    DropAfter,      \* TRUE: the executor is dropped after the last run (or after a failed one)
    LocalCap,       \* capacity of a worker's local queue
    BucketCap,      \* capacity of an injector bucket
    FlagUnderLock   \* TRUE: pop_bucket updates the `is_empty` hint while it still holds the injector's mutex (the code)

Workers == 0..(NW - 1)
None == 0           \* no task (task ids start at 1)

VARIABLES
    active,         \* set of workers whose bit is set in active_workers
    searching,      \* searching_workers
    injector,       \* [b: sequence of buckets (sequences of tasks), empty: the `is_empty` hint flag]
    localq,         \* [Workers -> Seq(Tasks)]
    fast,           \* [Workers -> Tasks \cup {None}]
    token,          \* [Workers -> BOOLEAN]  unpark token of each worker's parker
    mtoken,         \* BOOLEAN               unpark token of the executor thread's parker
    tcount,         \* [Workers -> Int]      THREAD_MSG_COUNT of each worker thread
    gcount,         \* Int                   ExecutorContext.msg_count
    abort,          \* abort signal
    panicslot,      \* None or the task whose panic was registered first
    wpc,            \* [Workers -> pc]
    wl,             \* [Workers -> local variables: cur task, effect index, snapshot a, chosen worker f, return pc]
    mpc,            \* pc of the executor thread
    ml,             \* its locals: a, f, run index
    tstate,         \* [Tasks -> "unspawned" | "idle" | "queued" | "running" | "done" | "dropped" | "lostoutside"]
    rewake,         \* [Tasks -> BOOLEAN] woken while being polled
    npoll,          \* [Tasks -> Nat] polls started so far
    inflight,       \* ghost: true number of messages sent and not received
    results,        \* ghost: results of the calls to run(), with the state observed when they returned
    exited          \* set of workers whose thread has returned

vars == <<active, searching, injector, localq, fast, token, mtoken, tcount, gcount, abort, panicslot, wpc, wl, mpc, ml,
          tstate, rewake, npoll, inflight, results, exited>>

WL0 == [cur |-> None, ei |-> 1, a |-> {}, f |-> 0, ret |-> "none", folded |-> 0, pe |-> FALSE]

Init ==
    /\ active = Workers                 \* set_all_workers_active() before the threads are spawned
    /\ searching = 0
    /\ injector = [b |-> <<>>, empty |-> TRUE]
    /\ localq = [w \in Workers |-> <<>>]
    /\ fast = [w \in Workers |-> None]
    /\ token = [w \in Workers |-> FALSE]
    /\ mtoken = FALSE
    /\ tcount = [w \in Workers |-> 0]
    /\ gcount = 0
    /\ abort = FALSE
    /\ panicslot = None
    /\ wpc = [w \in Workers |-> "top"]
    /\ wl = [w \in Workers |-> WL0]
    /\ mpc = "new_park"                 \* Executor::new parks until all workers are blocked
    /\ ml = [a |-> {}, f |-> 0, run |-> 0]
    /\ tstate = [t \in Tasks |-> "unspawned"]
    /\ rewake = [t \in Tasks |-> FALSE]
    /\ npoll = [t \in Tasks |-> 0]
    /\ inflight = 0
    /\ results = <<>>
    /\ exited = {}

Min(S) == CHOOSE x \in S : \A y \in S : x <= y
Idle(a) == Workers \ a
Goto(w, l) == wpc' = [wpc EXCEPT ![w] = l]

Holding(w) == (IF fast[w] = None THEN {} ELSE {fast[w]}) \cup {localq[w][i] : i \in 1..Len(localq[w])}
InInjector == UNION {{injector.b[i][j] : j \in 1..Len(injector.b[i])} : i \in 1..Len(injector.b)}
Queued == InInjector \cup UNION {Holding(w) : w \in Workers}

(* Injector::insert_task, push_bucket (each entirely under the mutex) *)
InsertTask(inj, t) ==
    IF inj.b = <<>> THEN [b |-> << <<t>> >>, empty |-> FALSE]
    ELSE IF Len(inj.b[1]) < BucketCap THEN [inj EXCEPT !.b[1] = Append(@, t)]
    ELSE [inj EXCEPT !.b = << <<t>> >> \o Tail(inj.b) \o << inj.b[1] >>]
PushBucket(inj, bk) == [b |-> Append(inj.b, bk), empty |-> IF inj.b = <<>> THEN FALSE ELSE inj.empty]
RECURSIVE InsertAll(_, _)
InsertAll(inj, ts) == IF ts = <<>> THEN inj ELSE InsertAll(InsertTask(inj, Head(ts)), Tail(ts))

-----------------------------------------------------------------------------
(* Worker threads: run_local_worker                                         *)

UW == <<active, searching, injector, localq, fast, token, mtoken, tcount, gcount, abort, panicslot, wl, mpc, ml,
           tstate, rewake, npoll, inflight, results, exited>>

(* top of the outer loop; with FoldFirst the count is folded here *)
WTop(w) ==
    /\ wpc[w] = "top"
    /\ IF FoldFirst
       THEN /\ gcount' = gcount + tcount[w]
            /\ tcount' = [tcount EXCEPT ![w] = 0]
            /\ wl' = [wl EXCEPT ![w].folded = tcount[w]]
            /\ Goto(w, "p26")
       ELSE /\ UNCHANGED <<gcount, tcount, wl>>
            /\ Goto(w, "deact")
    /\ UNCHANGED <<active, searching, injector, localq, fast, token, mtoken, abort, panicslot, mpc, ml, tstate,
                   rewake, npoll, inflight, results, exited>>

(* try_set_worker_inactive: one read-modify-write *)
WDeact(w) ==
    /\ wpc[w] = "deact"
    /\ IF active = {w}
       THEN /\ UNCHANGED active
            /\ Goto(w, "chkinj")
       ELSE /\ active' = active \ {w}
            /\ Goto(w, IF FoldFirst THEN "p20" ELSE "latefold1")
    /\ UNCHANGED <<searching, injector, localq, fast, token, mtoken, tcount, gcount, abort, panicslot, wl, mpc, ml,
                   tstate, rewake, npoll, inflight, results, exited>>

(* the order of the pinned tree: fold after the deactivation *)
WLateFold(w) ==
    /\ wpc[w] \in {"latefold1", "latefold2"}
    /\ gcount' = gcount + tcount[w]
    /\ tcount' = [tcount EXCEPT ![w] = 0]
    /\ wl' = [wl EXCEPT ![w].folded = tcount[w]]
    /\ Goto(w, IF wpc[w] = "latefold1" THEN "p20" ELSE "p21")
    /\ UNCHANGED <<active, searching, injector, localq, fast, token, mtoken, abort, panicslot, mpc, ml, tstate,
                   rewake, npoll, inflight, results, exited>>

(* last active worker: is the injector empty? *)
WChkInj(w) ==
    /\ wpc[w] = "chkinj"
    /\ IF injector.empty \/ ~Recheck
       THEN /\ Goto(w, "setall")
            /\ UNCHANGED searching
       ELSE /\ searching' = searching + 1          \* begin_worker_search
            /\ Goto(w, "p23")
    /\ UNCHANGED <<active, injector, localq, fast, token, mtoken, tcount, gcount, abort, panicslot, wl, mpc, ml, tstate,
                   rewake, npoll, inflight, results, exited>>

WSetAll(w) ==
    /\ wpc[w] = "setall"
    /\ active' = {}
    /\ Goto(w, IF FoldFirst THEN "p21" ELSE "latefold2")
    /\ UNCHANGED <<searching, injector, localq, fast, token, mtoken, tcount, gcount, abort, panicslot, wl, mpc, ml,
                   tstate, rewake, npoll, inflight, results, exited>>

WUnparkMain(w) ==
    /\ wpc[w] = "unparkmain"
    /\ mtoken' = TRUE
    /\ Goto(w, "park2")
    /\ UNCHANGED <<active, searching, injector, localq, fast, token, tcount, gcount, abort, panicslot, wl, mpc, ml,
                   tstate, rewake, npoll, inflight, results, exited>>

WPark(w) ==
    /\ wpc[w] \in {"park1", "park2"}
    /\ token[w]
    /\ token' = [token EXCEPT ![w] = FALSE]
    /\ Goto(w, IF wpc[w] = "park1" THEN "p24a" ELSE "p24b")
    /\ UNCHANGED <<active, searching, injector, localq, fast, mtoken, tcount, gcount, abort, panicslot, wl, mpc, ml,
                   tstate, rewake, npoll, inflight, results, exited>>

WAbortChk(w) ==
    /\ wpc[w] = "abortchk"
    /\ Goto(w, IF abort THEN "leave" ELSE "search")
    /\ UNCHANGED UW

(* the inner loop: injector first.  pop_bucket reads the hint flag, then pops the last bucket under the mutex *)
WSearchFlag(w) ==
    /\ wpc[w] = "search"
    /\ Goto(w, IF injector.empty THEN "steal" ELSE "popbucket")
    /\ UNCHANGED UW

WPopBucket(w) ==
    /\ wpc[w] = "popbucket"
    /\ IF injector.b = <<>>
       THEN /\ injector' = [injector EXCEPT !.empty = TRUE]
            /\ UNCHANGED <<localq, wl>>
            /\ Goto(w, "steal")
       ELSE LET n == Len(injector.b)
                rest == SubSeq(injector.b, 1, n - 1)
            IN  /\ localq' = [localq EXCEPT ![w] = @ \o injector.b[n]]
                /\ IF FlagUnderLock
                   THEN /\ injector' = [b |-> rest, empty |-> IF rest = <<>> THEN TRUE ELSE injector.empty]
                        /\ UNCHANGED wl
                        /\ Goto(w, "p35")
                   ELSE /\ injector' = [b |-> rest, empty |-> injector.empty]
                        /\ wl' = [wl EXCEPT ![w].pe = (rest = <<>>)]
                        /\ Goto(w, "popflag")
    /\ UNCHANGED <<active, searching, fast, token, mtoken, tcount, gcount, abort, panicslot, mpc, ml, tstate,
                   rewake, npoll, inflight, results, exited>>

(* the hint flag updated after the mutex was released (not the code: FlagUnderLock = FALSE) *)
WPopFlag(w) ==
    /\ wpc[w] = "popflag"
    /\ injector' = [injector EXCEPT !.empty = IF wl[w].pe THEN TRUE ELSE @]
    /\ Goto(w, "p35")
    /\ UNCHANGED <<active, searching, localq, fast, token, mtoken, tcount, gcount, abort, panicslot, wl, mpc, ml, tstate,
                   rewake, npoll, inflight, results, exited>>

(* steal from a sibling: n - n/2 of its n queued tasks, one of which lands in the LIFO slot *)
WSteal(w) ==
    /\ wpc[w] = "steal"
    /\ \E v \in Workers \ {w} :
          /\ localq[v] # <<>>
          /\ LET n == Len(localq[v])
                 k == n - (n \div 2)
                 stolen == SubSeq(localq[v], 1, k)
             IN  /\ fast' = [fast EXCEPT ![w] = stolen[k]]
                 /\ localq' = [localq EXCEPT ![v] = SubSeq(@, k + 1, n), ![w] = @ \o SubSeq(stolen, 1, k - 1)]
    /\ Goto(w, "p36")
    /\ UNCHANGED <<active, searching, injector, token, mtoken, tcount, gcount, abort, panicslot, wl, mpc, ml, tstate,
                   rewake, npoll, inflight, results, exited>>

(* nothing to steal: try again from the injector ... *)
WRetry(w) ==
    /\ wpc[w] = "steal"
    /\ \A v \in Workers \ {w} : localq[v] = <<>>
    /\ ~injector.empty
    /\ Goto(w, "search")
    /\ UNCHANGED UW

(* ... or, after too long, give up *)
WGiveUp(w) ==
    /\ wpc[w] = "steal"
    /\ searching' = searching - 1                  \* end_worker_search
    /\ Goto(w, "p29")
    /\ UNCHANGED <<active, injector, localq, fast, token, mtoken, tcount, gcount, abort, panicslot, wl, mpc, ml, tstate,
                   rewake, npoll, inflight, results, exited>>

WEndSearch(w) ==
    /\ wpc[w] = "endsearch"
    /\ searching' = searching - 1
    /\ Goto(w, "pop")
    /\ UNCHANGED <<active, injector, localq, fast, token, mtoken, tcount, gcount, abort, panicslot, wl, mpc, ml, tstate,
                   rewake, npoll, inflight, results, exited>>

(* fast_slot.take().or_else(|| local_queue.pop()); the abort signal is read before the task runs *)
WPop(w) ==
    /\ wpc[w] = "pop"
    /\ IF fast[w] # None
       THEN /\ wl' = [wl EXCEPT ![w].cur = fast[w]]
            /\ fast' = [fast EXCEPT ![w] = None]
            /\ UNCHANGED <<localq, searching>>
            /\ Goto(w, "popped")
       ELSE IF localq[w] # <<>>
       THEN /\ wl' = [wl EXCEPT ![w].cur = Head(localq[w])]
            /\ localq' = [localq EXCEPT ![w] = Tail(@)]
            /\ UNCHANGED <<fast, searching>>
            /\ Goto(w, "popped")
       ELSE /\ searching' = searching + 1          \* begin_worker_search, resume the search
            /\ UNCHANGED <<fast, localq, wl>>
            /\ Goto(w, "search")
    /\ UNCHANGED <<active, injector, token, mtoken, tcount, gcount, abort, panicslot, mpc, ml, tstate, rewake, npoll,
                   inflight, results, exited>>

WPopped(w) ==
    /\ wpc[w] = "popped"
    /\ IF abort
       THEN /\ tstate' = [tstate EXCEPT ![wl[w].cur] = "dropped"] \* the Runnable is dropped by the return, on the worker
            /\ wl' = [wl EXCEPT ![w].cur = None]
            /\ Goto(w, "leave")
       ELSE /\ UNCHANGED <<tstate, wl>>
            /\ Goto(w, "p27")
    /\ UNCHANGED <<active, searching, injector, localq, fast, token, mtoken, tcount, gcount, abort, panicslot, mpc, ml,
                   rewake, npoll, inflight, results, exited>>

(* Runnable::run: start a poll *)
Poll(t) == IF npoll[t] < Len(Script[t]) THEN Script[t][npoll[t] + 1] ELSE [eff |-> <<>>, ready |-> FALSE]
CurPoll(t) == IF npoll[t] >= 1 /\ npoll[t] <= Len(Script[t]) THEN Script[t][npoll[t]] ELSE [eff |-> <<>>, ready |-> FALSE]

WPollBegin(w) ==
    /\ wpc[w] = "pollbegin"
    /\ LET t == wl[w].cur IN
          /\ tstate' = [tstate EXCEPT ![t] = "running"]
          /\ rewake' = [rewake EXCEPT ![t] = FALSE]
          /\ npoll' = [npoll EXCEPT ![t] = @ + 1]
    /\ wl' = [wl EXCEPT ![w].ei = 1]
    /\ Goto(w, "effect")
    /\ UNCHANGED <<active, searching, injector, localq, fast, token, mtoken, tcount, gcount, abort, panicslot, mpc, ml,
                   inflight, results, exited>>

(* one effect of the current poll *)
WEffect(w) ==
    /\ wpc[w] = "effect"
    /\ LET t == wl[w].cur
           p == CurPoll(t)
       IN  IF wl[w].ei > Len(p.eff)
           THEN \* end of the poll
                /\ IF p.ready
                   THEN /\ tstate' = [tstate EXCEPT ![t] = "done"]
                        /\ wl' = [wl EXCEPT ![w].cur = None]
                        /\ Goto(w, "p28")
                   ELSE IF rewake[t]
                   THEN /\ UNCHANGED <<tstate, wl>>
                        /\ Goto(w, "pollbegin")                     \* woken while polling: poll again
                   ELSE /\ tstate' = [tstate EXCEPT ![t] = "idle"]
                        /\ wl' = [wl EXCEPT ![w].cur = None]
                        /\ Goto(w, "p28")
                /\ UNCHANGED <<fast, localq, tcount, inflight, rewake, injector>>
           ELSE LET e == p.eff[wl[w].ei] IN
                IF e[1] = "msg"
                THEN /\ tcount' = [tcount EXCEPT ![w] = @ + e[2]]
                     /\ inflight' = inflight + e[2]
                     /\ wl' = [wl EXCEPT ![w].ei = @ + 1]
                     /\ UNCHANGED <<tstate, fast, localq, rewake, injector>>
                     /\ Goto(w, "effect")
                ELSE IF e[1] = "panic"
                THEN /\ tstate' = [tstate EXCEPT ![t] = "done"]    \* the future is dropped by the unwinding
                     /\ wl' = [wl EXCEPT ![w].ei = @ + 1]
                     /\ UNCHANGED <<fast, localq, tcount, inflight, rewake, injector>>
                     /\ Goto(w, "handover")
                ELSE \* wake
                     LET u == e[2] IN
                     IF tstate[u] = "idle"
                     THEN \* schedule_task: the task goes to the LIFO slot, the former occupant to the local queue
                          /\ tstate' = [tstate EXCEPT ![u] = "queued"]
                          /\ fast' = [fast EXCEPT ![w] = u]
                          /\ wl' = [wl EXCEPT ![w].ei = @ + 1]
                          /\ UNCHANGED <<tcount, inflight, rewake>>
                          /\ IF fast[w] = None
                             THEN /\ UNCHANGED <<localq, injector>>
                                  /\ Goto(w, "effect")
                             ELSE IF Len(localq[w]) < LocalCap
                             THEN /\ localq' = [localq EXCEPT ![w] = Append(@, fast[w])]
                                  /\ UNCHANGED injector
                                  /\ Goto(w, "schedchk")
                             ELSE \* the local queue is full: its older half goes to the injector as one bucket
                                  LET n == Len(localq[w])
                                      k == IF BucketCap < n THEN BucketCap ELSE n
                                  IN  /\ injector' = PushBucket(injector, SubSeq(localq[w], 1, k))
                                      /\ localq' = [localq EXCEPT ![w] = Append(SubSeq(@, k + 1, n), fast[w])]
                                      /\ Goto(w, "schedchk")
                     ELSE /\ rewake' = [rewake EXCEPT ![u] = IF tstate[u] = "running" THEN TRUE ELSE @]
                          /\ wl' = [wl EXCEPT ![w].ei = @ + 1]
                          /\ UNCHANGED <<tstate, fast, localq, tcount, inflight, injector>>
                          /\ Goto(w, "effect")
    /\ UNCHANGED <<active, searching, token, mtoken, gcount, abort, panicslot, mpc, ml, npoll, results, exited>>

(* a task was pushed to the local queue: activate a sibling unless some worker is searching *)
WSchedChk(w) ==
    /\ wpc[w] = "schedchk"
    /\ IF searching = 0
       THEN /\ wl' = [wl EXCEPT ![w].a = active, ![w].ret = "effect"]      \* load of active_workers
            /\ Goto(w, "artry")
       ELSE /\ UNCHANGED wl
            /\ Goto(w, "effect")
    /\ UNCHANGED <<active, searching, injector, localq, fast, token, mtoken, tcount, gcount, abort, panicslot, mpc, ml,
                   tstate, rewake, npoll, inflight, results, exited>>

(* activate_worker_relaxed: fetch_or loop *)
WArTry(w) ==
    /\ wpc[w] = "artry"
    /\ IF Idle(wl[w].a) = {}
       THEN /\ Goto(w, wl[w].ret)
            /\ UNCHANGED <<active, wl>>
       ELSE LET f == Min(Idle(wl[w].a)) IN
            /\ active' = active \cup {f}
            /\ IF f \notin active
               THEN /\ wl' = [wl EXCEPT ![w].f = f]
                    /\ Goto(w, "arbegin")
               ELSE /\ wl' = [wl EXCEPT ![w].a = active]
                    /\ Goto(w, "artry")
    /\ UNCHANGED <<searching, injector, localq, fast, token, mtoken, tcount, gcount, abort, panicslot, mpc, ml, tstate,
                   rewake, npoll, inflight, results, exited>>

WArBegin(w) ==
    /\ wpc[w] = "arbegin"
    /\ searching' = searching + 1
    /\ Goto(w, "arunpark")
    /\ UNCHANGED <<active, injector, localq, fast, token, mtoken, tcount, gcount, abort, panicslot, wl, mpc, ml, tstate,
                   rewake, npoll, inflight, results, exited>>

WArUnpark(w) ==
    /\ wpc[w] = "arunpark"
    /\ token' = [token EXCEPT ![wl[w].f] = TRUE]
    /\ Goto(w, wl[w].ret)
    /\ UNCHANGED <<active, searching, injector, localq, fast, mtoken, tcount, gcount, abort, panicslot, wl, mpc, ml,
                   tstate, rewake, npoll, inflight, results, exited>>

(* leaving the worker function (abort seen, or a panic was caught) *)
WHandOver(w) ==
    /\ wpc[w] \in {"leave", "handover"}
    /\ IF HandOver
       THEN /\ injector' = InsertAll(injector, (IF fast[w] = None THEN <<>> ELSE <<fast[w]>>) \o localq[w])
            /\ UNCHANGED tstate
       ELSE /\ UNCHANGED injector
            /\ tstate' = [t \in Tasks |-> IF t \in Holding(w) THEN "lostoutside" ELSE tstate[t]]
    /\ fast' = [fast EXCEPT ![w] = None]
    /\ localq' = [localq EXCEPT ![w] = <<>>]
    /\ Goto(w, IF wpc[w] = "leave" THEN "exit" ELSE "regpanic")
    /\ UNCHANGED <<active, searching, token, mtoken, tcount, gcount, abort, panicslot, wl, mpc, ml, rewake, npoll,
                   inflight, results, exited>>

WRegPanic(w) ==
    /\ wpc[w] = "regpanic"
    /\ panicslot' = IF panicslot = None THEN wl[w].cur ELSE panicslot
    /\ abort' = TRUE
    /\ Goto(w, "pactall")
    /\ UNCHANGED <<active, searching, injector, localq, fast, token, mtoken, tcount, gcount, wl, mpc, ml, tstate, rewake,
                   npoll, inflight, results, exited>>

WPActAll(w) ==
    /\ wpc[w] = "pactall"
    /\ active' = Workers
    /\ token' = [v \in Workers |-> TRUE]
    /\ Goto(w, "punpark")
    /\ UNCHANGED <<searching, injector, localq, fast, mtoken, tcount, gcount, abort, panicslot, wl, mpc, ml, tstate,
                   rewake, npoll, inflight, results, exited>>

WPUnpark(w) ==
    /\ wpc[w] = "punpark"
    /\ mtoken' = TRUE
    /\ Goto(w, "exit")
    /\ UNCHANGED <<active, searching, injector, localq, fast, token, tcount, gcount, abort, panicslot, wl, mpc, ml,
                   tstate, rewake, npoll, inflight, results, exited>>

WExit(w) ==
    /\ wpc[w] = "exit"
    /\ exited' = exited \cup {w}
    /\ Goto(w, "gone")
    /\ UNCHANGED <<active, searching, injector, localq, fast, token, mtoken, tcount, gcount, abort, panicslot, wl, mpc, ml,
                   tstate, rewake, npoll, inflight, results>>

(* hook points: no-op steps; the pc after each *)
PointNext == [p20 |-> "p22", p22 |-> "park1", p24a |-> "abortchk", p24b |-> "abortchk", p21 |-> "p25",
              p25 |-> "unparkmain", p23 |-> "abortchk", p26 |-> "deact", p27 |-> "pollbegin", p28 |-> "pop",
              p29 |-> "top", p35 |-> "endsearch", p36 |-> "endsearch"]
PointIds == DOMAIN PointNext

WPoint(w) ==
    /\ wpc[w] \in PointIds
    /\ Goto(w, PointNext[wpc[w]])
    /\ UNCHANGED UW

Worker(w) ==
    \/ WTop(w) \/ WDeact(w) \/ WLateFold(w) \/ WChkInj(w) \/ WSetAll(w) \/ WUnparkMain(w) \/ WPark(w) \/ WAbortChk(w)
    \/ WSearchFlag(w) \/ WPopBucket(w) \/ WPopFlag(w) \/ WSteal(w) \/ WRetry(w) \/ WGiveUp(w) \/ WEndSearch(w) \/ WPop(w) \/ WPopped(w) \/ WPollBegin(w) \/ WEffect(w)
    \/ WSchedChk(w) \/ WArTry(w) \/ WArBegin(w) \/ WArUnpark(w) \/ WHandOver(w) \/ WRegPanic(w) \/ WPActAll(w)
    \/ WPUnpark(w) \/ WExit(w) \/ WPoint(w)

-----------------------------------------------------------------------------
(* The executor thread                                                      *)

UM == <<active, searching, injector, localq, fast, token, tcount, gcount, abort, panicslot, wpc, wl, tstate, rewake,
        npoll, inflight, exited>>

MGoto(l) == mpc' = l

(* Executor::new: wait until all workers are blocked *)
MNewPark ==
    /\ mpc = "new_park"
    /\ mtoken
    /\ mtoken' = FALSE
    /\ MGoto("out")
    /\ UNCHANGED <<active, searching, injector, localq, fast, token, tcount, gcount, abort, panicslot, wpc, wl, ml, tstate,
                   rewake, npoll, inflight, results, exited>>

(* spawn the tasks of the next run into the injector, one by one, then call run() *)
MSpawn ==
    /\ mpc = "out"
    /\ ml.run < Len(Runs)
    /\ \E t \in Runs[ml.run + 1] :
          /\ tstate[t] = "unspawned"
          /\ tstate' = [tstate EXCEPT ![t] = "queued"]
          /\ injector' = InsertTask(injector, t)
    /\ UNCHANGED <<active, searching, localq, fast, token, mtoken, tcount, gcount, abort, panicslot, wpc, wl, mpc, ml,
                   rewake, npoll, inflight, results, exited>>

MRun ==
    /\ mpc = "out"
    /\ ml.run < Len(Runs)
    /\ \A t \in Runs[ml.run + 1] : tstate[t] # "unspawned"
    /\ ml' = [ml EXCEPT !.run = @ + 1, !.a = active]               \* activate_worker: load
    /\ MGoto("m_artry")
    /\ UNCHANGED <<active, searching, injector, localq, fast, token, mtoken, tcount, gcount, abort, panicslot, wpc, wl,
                   tstate, rewake, npoll, inflight, results, exited>>

(* activate_worker: like the relaxed version, but when every worker looks active a fetch_or(0) confirms it *)
MArTry ==
    /\ mpc = "m_artry"
    /\ IF Idle(ml.a) = {}
       THEN /\ IF active = ml.a THEN MGoto("p30") ELSE MGoto("m_artry")
            /\ ml' = [ml EXCEPT !.a = active]
            /\ UNCHANGED active
       ELSE LET f == Min(Idle(ml.a)) IN
            /\ active' = active \cup {f}
            /\ IF f \notin active
               THEN /\ ml' = [ml EXCEPT !.f = f]
                    /\ MGoto("m_arbegin")
               ELSE /\ ml' = [ml EXCEPT !.a = active]
                    /\ MGoto("m_artry")
    /\ UNCHANGED <<searching, injector, localq, fast, token, mtoken, tcount, gcount, abort, panicslot, wpc, wl, tstate,
                   rewake, npoll, inflight, results, exited>>

MArBegin ==
    /\ mpc = "m_arbegin"
    /\ searching' = searching + 1
    /\ MGoto("m_arunpark")
    /\ UNCHANGED <<active, injector, localq, fast, token, mtoken, tcount, gcount, abort, panicslot, wpc, wl, ml, tstate,
                   rewake, npoll, inflight, results, exited>>

MArUnpark ==
    /\ mpc = "m_arunpark"
    /\ token' = [token EXCEPT ![ml.f] = TRUE]
    /\ MGoto("p30")
    /\ UNCHANGED <<active, searching, injector, localq, fast, mtoken, tcount, gcount, abort, panicslot, wpc, wl, ml, tstate,
                   rewake, npoll, inflight, results, exited>>

MPoint ==
    /\ mpc \in {"p30", "p31"}
    /\ MGoto(IF mpc = "p30" THEN "m_loop" ELSE "m_read")
    /\ UNCHANGED <<active, searching, injector, localq, fast, token, mtoken, tcount, gcount, abort, panicslot, wpc, wl, ml,
                   tstate, rewake, npoll, inflight, results, exited>>

Snapshot(kind, n) ==
    [r |-> kind, n |-> n, run |-> ml.run,
     pending |-> {t \in Tasks : tstate[t] \in {"queued", "running"}},
     unfolded |-> {w \in Workers : tcount[w] # 0},
     inflight |-> inflight]

(* the loop of run(): panic first, then idleness *)
MLoop ==
    /\ mpc = "m_loop"
    /\ IF panicslot # None
       THEN /\ results' = Append(results, Snapshot("panic", panicslot))
            /\ panicslot' = None
            /\ MGoto("dead")
       ELSE /\ UNCHANGED <<results, panicslot>>
            /\ MGoto(IF active = {} THEN "p31" ELSE "m_park")
    /\ UNCHANGED <<active, searching, injector, localq, fast, token, mtoken, tcount, gcount, abort, wpc, wl, ml, tstate,
                   rewake, npoll, inflight, exited>>

MRead ==
    /\ mpc = "m_read"
    /\ results' = Append(results, Snapshot(IF gcount = 0 THEN "ok" ELSE IF gcount > 0 THEN "unprocessed" ELSE "negative", gcount))
    /\ MGoto(IF gcount = 0 THEN "out" ELSE "dead")
    /\ UNCHANGED <<active, searching, injector, localq, fast, token, mtoken, tcount, gcount, abort, panicslot, wpc, wl, ml,
                   tstate, rewake, npoll, inflight, exited>>

MPark ==
    /\ mpc = "m_park"
    /\ mtoken
    /\ mtoken' = FALSE
    /\ MGoto("m_loop")
    /\ UNCHANGED <<active, searching, injector, localq, fast, token, tcount, gcount, abort, panicslot, wpc, wl, ml, tstate,
                   rewake, npoll, inflight, results, exited>>

(* drop(executor): abort, wake everybody, join *)
MDrop ==
    /\ DropAfter
    /\ \/ mpc = "dead"
       \/ mpc = "out" /\ ml.run = Len(Runs)
    /\ abort' = TRUE
    /\ active' = Workers
    /\ token' = [w \in Workers |-> TRUE]
    /\ MGoto("joining")
    /\ UNCHANGED <<searching, injector, localq, fast, mtoken, tcount, gcount, panicslot, wpc, wl, ml, tstate, rewake, npoll,
                   inflight, results, exited>>

MJoined ==
    /\ mpc = "joining"
    /\ exited = Workers
    /\ MGoto("dropped")
    /\ UNCHANGED <<active, searching, injector, localq, fast, token, mtoken, tcount, gcount, abort, panicslot, wpc, wl, ml,
                   tstate, rewake, npoll, inflight, results, exited>>

Main == MNewPark \/ MSpawn \/ MRun \/ MArTry \/ MArBegin \/ MArUnpark \/ MPoint \/ MLoop \/ MRead \/ MPark \/ MDrop \/ MJoined

Next == Main \/ \E w \in Workers : Worker(w)

Spec == Init /\ [][Next]_vars

-----------------------------------------------------------------------------
(* Properties                                                               *)

LastRes == results[Len(results)]

(* C04: run() returns Ok / UnprocessedMessages only when no task is runnable or running *)
OkMeansQuiescent ==
    \A i \in 1..Len(results) : results[i].r \in {"ok", "unprocessed", "negative"} => results[i].pending = {}

(* C06: the count read by run() is the true number of messages in flight *)
CountExact ==
    \A i \in 1..Len(results) :
        results[i].r \in {"ok", "unprocessed", "negative"} =>
            /\ results[i].unfolded = {}
            /\ results[i].n = results[i].inflight
            /\ results[i].r # "negative"

(* C04: run() cannot block forever - never is everybody parked without a token while the executor thread waits *)
WorkerBlocked(w) == wpc[w] \in {"park1", "park2"} /\ ~token[w]
NoStrandedRun ==
    ~(/\ mpc \in {"m_park", "new_park"} /\ ~mtoken
      /\ \A w \in Workers : WorkerBlocked(w) \/ wpc[w] = "gone")

(* C19: the join in drop() cannot block forever *)
DropReturns ==
    ~(/\ mpc = "joining"
      /\ \A w \in Workers : WorkerBlocked(w) \/ wpc[w] = "gone"
      /\ exited # Workers)

(* a worker that runs, searches or schedules has its bit set (the executor thread may otherwise see an idle pool) *)
Busy(w) == wpc[w] \notin {"top", "p26", "deact", "latefold1", "latefold2", "p20", "p22", "park1", "p21", "p25", "unparkmain",
                          "park2", "p24a", "p24b", "chkinj", "setall", "p23", "abortchk", "leave", "handover", "regpanic",
                          "pactall", "punpark", "exit", "gone", "p29"}
BusyIsActive == abort \/ \A w \in Workers : Busy(w) => w \in active

(* every task is in at most one place, and a queued task is somewhere *)
Places(t) == Cardinality({<<i, j>> \in (1..Cardinality(Tasks)) \X (1..Cardinality(Tasks)) :
                              i <= Len(injector.b) /\ j <= Len(injector.b[i]) /\ injector.b[i][j] = t})
             + Cardinality({w \in Workers : fast[w] = t})
             + Cardinality({<<w, i>> \in Workers \X (1..Cardinality(Tasks)) : i <= Len(localq[w]) /\ localq[w][i] = t})
             + Cardinality({w \in Workers : wl[w].cur = t})
OnePlace == \A t \in Tasks :
               /\ Places(t) <= 1
               /\ tstate[t] \in {"queued", "running"} => Places(t) = 1

SearchingSane == searching >= 0 /\ searching <= NW + 1

(* C19 (F7): no task is dropped when a worker thread exits, i.e. outside the scope in which dropping a task may *)
(* schedule other tasks                                                                                           *)
NoDropOutsideWorker == \A t \in Tasks : tstate[t] # "lostoutside"

(* the assertion of try_set_worker_inactive: a worker that deactivates itself has its bit set *)
DeactAssert == abort \/ \A w \in Workers : wpc[w] = "deact" => w \in active

TypeOK ==
    /\ active \subseteq Workers
    /\ \A w \in Workers : fast[w] \in Tasks \cup {None}

(* Liveness (C04/C08 "every stepping call returns", C19 "the drop returns"): under weak fairness of every thread - a
   thread that can take a step eventually does; parking is a blocked step, not a step - the executor thread gets through
   every run() of the scenario and through drop(executor). A lost unpark (somebody parks for ever while work or the
   caller waits) or a search loop that never gives up is a behaviour that satisfies FairSpec and violates Terminates.
   NoStrandedRun is the safety shadow of this property; this is the real thing, checked on the full state graph. *)
Finished == mpc \in {"dropped"} \/ (~DropAfter /\ (mpc = "dead" \/ (mpc = "out" /\ ml.run = Len(Runs))))
FairSpec == Spec /\ WF_vars(Main) /\ \A w \in Workers : WF_vars(Worker(w))
Terminates == <>Finished

(* terminal states, for behaviour export *)
=============================================================================
