---------------------------- MODULE MC_MpscQueue ----------------------------
EXTENDS MpscQueue, Json

CONSTANT Emit

(* Export of sequential operation histories (FreeOps /\ Sequential): one line per maximal history. *)
EmitHist ==
    (Emit /\ AllIdle /\ Len(hist) = MaxOps) =>
        PrintT(<<"BEHAVIOUR", ToJson([i \in 1..Len(hist) |->
                     [t |-> hist[i].t, op |-> hist[i].op, inn |-> hist[i].inn,
                      ret |-> hist[i].ret]])>>)

=============================================================================
