--------------------------------- MODULE Task ---------------------------------
(***************************************************************************)
(* The executor's task (nexosim/src/executor/task.rs, task/runnable.rs,    *)
(* task/cancel_token.rs, task/promise.rs) at the granularity of the atomic *)
(* operations on its state word                                            *)
(*                                                                         *)
(*        | wake count | reference count | CLOSED | POLLING |              *)
(*                                                                         *)
(* modelled as the record st = [polling, closed, refs, wakes].  Handles    *)
(* are resources: Runnables (created by a wake-up when the wake count      *)
(* goes from 0 to 1, consumed by run or drop), Wakers (reference counted), *)
(* the CancelToken and the Promise.  Threads pick any operation whose      *)
(* handle is available; every read-modify-write of the state word is one   *)
(* step, the poll of the future is two steps (begin/end) and the accesses  *)
(* to the future, the output and the allocation are ghost state on which   *)
(* the safety properties are stated.                                       *)
(*                                                                         *)
(* The future is data: Script is the sequence of what successive polls do  *)
(* (clone the waker into the pool, wake itself by reference, then return   *)
(* Pending or Ready, or panic).                                            *)
(***************************************************************************)
EXTENDS Naturals, Integers, Sequences, FiniteSets, TLC

CONSTANTS
    Threads,     \* set of thread ids
    Script,      \* Script[k]: what the k-th poll does: [clone, selfwake, ret]; the last entry repeats
    WithPromise, \* TRUE: spawn (Promise + Runnable + CancelToken); FALSE: spawn_and_forget
    MaxOps,      \* bound on the number of handle operations started
    Sequential   \* TRUE: operations do not overlap

VARIABLES
    st,        \* the state word
    runq,      \* number of Runnable handles waiting to be run or dropped
    pool,      \* number of Waker handles (any thread may use one)
    token,     \* the CancelToken exists
    promise,   \* the Promise exists
    fut,       \* ghost: "alive" | "dropped"
    out,       \* ghost: "none" | "alive" | "taken" | "dropped"
    mem,       \* ghost: "alloc" | "freed"
    pollers,   \* ghost: threads inside Future::poll
    npolls,    \* number of polls started
    pc,        \* pc[t]
    loc,       \* loc[t]: local copy of the state word, wake count, current op
    nops,      \* operations started
    hist,      \* sequential histories: completed operations with their observable results
    bad        \* ghost: set of violated safety conditions

vars == <<st, runq, pool, token, promise, fut, out, mem, pollers, npolls, pc, loc, nops, hist, bad>>

State(p, c, r, w) == [polling |-> p, closed |-> c, refs |-> r, wakes |-> w]
NoLoc == [s |-> State(FALSE, FALSE, 0, 0), wc |-> 0, op |-> "none", res |-> "none"]

RunnableExists(s) == s.polling /\ (s.wakes > 0 \/ s.closed)

Init ==
    /\ st = State(TRUE, FALSE, IF WithPromise THEN 2 ELSE 1, 1)
    /\ runq = 1 /\ pool = 0 /\ token = TRUE /\ promise = WithPromise
    /\ fut = "alive" /\ out = "none" /\ mem = "alloc"
    /\ pollers = {} /\ npolls = 0
    /\ pc = [t \in Threads |-> "idle"]
    /\ loc = [t \in Threads |-> NoLoc]
    /\ nops = 0 /\ hist = <<>> /\ bad = {}

(* ghost helpers: every access to the task requires the allocation to be live *)
Touch == IF mem = "alloc" THEN {} ELSE {"UseAfterFree"}
DropFuture == /\ fut' = "dropped"
DropFutureBad == IF fut = "alive" THEN {} ELSE {"FutureDroppedTwice"}
DropOutputBad == IF out = "alive" THEN {} ELSE {"OutputDroppedWrongly"}
FreeBad == IF mem = "alloc" THEN {} ELSE {"DoubleFree"}

(* what a harness can observe between operations: whether the future / the output were dropped, whether the *)
(* output was handed to the promise, the number of polls and of queued Runnables                             *)
Obs == [futDropped |-> (fut = "dropped"), outDropped |-> (out = "dropped"), outTaken |-> (out = "taken"),
        npolls |-> npolls, runq |-> runq]

Finish(t, res) ==
    /\ pc' = [pc EXCEPT ![t] = "idle"]
    /\ loc' = [loc EXCEPT ![t].res = res]
    /\ hist' = IF Sequential THEN [hist EXCEPT ![Len(hist)].res = res] ELSE hist

NoOverlap(t) == Sequential => \A u \in Threads \ {t} : pc[u] = "idle"

(* An operation starts: the handle it needs is taken. *)
Start(t, op) ==
    /\ pc[t] = "idle" /\ nops < MaxOps /\ NoOverlap(t)
    /\ nops' = nops + 1
    /\ loc' = [loc EXCEPT ![t] = [NoLoc EXCEPT !.op = op]]
    /\ CASE op = "run"           -> runq > 0 /\ runq' = runq - 1 /\ pc' = [pc EXCEPT ![t] = "r_load"]
                                    /\ UNCHANGED <<pool, token, promise>>
         [] op = "drop_runnable" -> runq > 0 /\ runq' = runq - 1 /\ pc' = [pc EXCEPT ![t] = "c_drop_fut"]
                                    /\ UNCHANGED <<pool, token, promise>>
         [] op = "wake"          -> pool > 0 /\ pool' = pool - 1 /\ pc' = [pc EXCEPT ![t] = "w_val"]
                                    /\ UNCHANGED <<runq, token, promise>>
         \* operations by reference borrow the handle for their duration (nobody can drop it meanwhile)
         [] op = "wake_by_ref"   -> pool > 0 /\ pool' = pool - 1 /\ pc' = [pc EXCEPT ![t] = "w_ref"]
                                    /\ UNCHANGED <<runq, token, promise>>
         [] op = "clone_waker"   -> pool > 0 /\ pool' = pool - 1 /\ pc' = [pc EXCEPT ![t] = "k_clone"]
                                    /\ UNCHANGED <<runq, token, promise>>
         [] op = "drop_waker"    -> pool > 0 /\ pool' = pool - 1 /\ pc' = [pc EXCEPT ![t] = "d_ref"]
                                    /\ UNCHANGED <<runq, token, promise>>
         [] op = "cancel"        -> token /\ token' = FALSE /\ pc' = [pc EXCEPT ![t] = "x_update"]
                                    /\ UNCHANGED <<runq, pool, promise>>
         [] op = "drop_token"    -> token /\ token' = FALSE /\ pc' = [pc EXCEPT ![t] = "d_ref"]
                                    /\ UNCHANGED <<runq, pool, promise>>
         [] op = "poll_promise"  -> promise /\ promise' = FALSE /\ pc' = [pc EXCEPT ![t] = "p_update"]
                                    /\ UNCHANGED <<runq, pool, token>>
         [] op = "drop_promise"  -> promise /\ promise' = FALSE /\ pc' = [pc EXCEPT ![t] = "d_ref"]
                                    /\ UNCHANGED <<runq, pool, token>>
    /\ hist' = IF Sequential THEN Append(hist, [op |-> op, res |-> "", pre |-> Obs]) ELSE hist
    /\ UNCHANGED <<st, fut, out, mem, pollers, npolls, bad>>

OpNames == {"run", "drop_runnable", "wake", "wake_by_ref", "clone_waker", "drop_waker", "cancel", "drop_token",
            "poll_promise", "drop_promise"}

-----------------------------------------------------------------------------
(* Runnable::run *)

ScriptAt(k) == IF k <= Len(Script) THEN Script[k] ELSE Script[Len(Script)]

(* Acquire load of the state *)
RLoad(t) ==
    /\ pc[t] = "r_load"
    /\ loc' = [loc EXCEPT ![t] = [@ EXCEPT !.s = st, !.wc = st.wakes]]
    /\ pc' = [pc EXCEPT ![t] = "r_head"]
    /\ bad' = bad \cup Touch
    /\ UNCHANGED <<st, runq, pool, token, promise, fut, out, mem, pollers, npolls, nops, hist>>

(* loop head: cancelled meanwhile? otherwise the poll begins *)
RHead(t) ==
    /\ pc[t] = "r_head"
    /\ IF loc[t].s.closed
       THEN /\ pc' = [pc EXCEPT ![t] = "c_drop_fut"]
            /\ UNCHANGED <<pollers, npolls, bad>>
       ELSE /\ pc' = [pc EXCEPT ![t] = "r_poll_clone"]
            /\ pollers' = pollers \cup {t}
            /\ npolls' = npolls + 1
            /\ bad' = bad \cup (IF fut = "alive" THEN {} ELSE {"PollAfterDone"})
                          \cup (IF pollers = {} THEN {} ELSE {"ConcurrentPoll"})
    /\ UNCHANGED <<st, runq, pool, token, promise, fut, out, mem, loc, nops, hist>>

(* inside the poll: the future may clone its waker (fetch_add REF, Relaxed) *)
RPollClone(t) ==
    /\ pc[t] = "r_poll_clone"
    /\ IF ScriptAt(npolls).clone
       THEN /\ st' = [st EXCEPT !.refs = @ + 1] /\ pool' = pool + 1
       ELSE UNCHANGED <<st, pool>>
    /\ pc' = [pc EXCEPT ![t] = "r_poll_wake"]
    /\ UNCHANGED <<runq, token, promise, fut, out, mem, pollers, npolls, loc, nops, hist, bad>>

(* inside the poll: the future may wake itself by reference (fetch_add WAKE, Release) *)
RPollWake(t) ==
    /\ pc[t] = "r_poll_wake"
    /\ IF ScriptAt(npolls).selfwake
       THEN /\ st' = [st EXCEPT !.wakes = @ + 1]
            /\ runq' = IF st.wakes = 0 /\ ~st.closed /\ st.polling THEN runq + 1 ELSE runq
       ELSE UNCHANGED <<st, runq>>
    /\ pc' = [pc EXCEPT ![t] = "r_poll_end"]
    /\ UNCHANGED <<pool, token, promise, fut, out, mem, pollers, npolls, loc, nops, hist, bad>>

(* the poll returns *)
RPollEnd(t) ==
    /\ pc[t] = "r_poll_end"
    /\ pollers' = pollers \ {t}
    /\ LET r == ScriptAt(npolls).ret IN
       CASE r = "ready"   -> /\ fut' = "dropped" /\ out' = "alive"      \* future dropped, output published
                             /\ bad' = bad \cup DropFutureBad
                             /\ pc' = [pc EXCEPT ![t] = "r_complete"]
         [] r = "pending" -> /\ pc' = [pc EXCEPT ![t] = "r_sub"]
                             /\ UNCHANGED <<fut, out, bad>>
         [] r = "panic"   -> /\ pc' = [pc EXCEPT ![t] = "c_drop_fut"]    \* the panic guard cancels the task
                             /\ UNCHANGED <<fut, out, bad>>
    /\ UNCHANGED <<st, runq, pool, token, promise, mem, npolls, loc, nops, hist>>

(* Ready: clear POLLING unless closed meanwhile or last reference (fetch_update, Release) *)
RComplete(t) ==
    /\ pc[t] = "r_complete"
    /\ bad' = bad \cup Touch
    /\ IF st.closed \/ st.refs = 0
       THEN /\ pc' = [pc EXCEPT ![t] = "r_drop_out"]
            /\ UNCHANGED <<st, hist, loc>>
       ELSE /\ st' = [st EXCEPT !.polling = FALSE]
            /\ Finish(t, "ran")
    /\ UNCHANGED <<runq, pool, token, promise, fut, out, mem, pollers, npolls, nops>>

RDropOut(t) ==
    /\ pc[t] = "r_drop_out"
    /\ out' = "dropped"
    /\ bad' = bad \cup DropOutputBad
    /\ pc' = [pc EXCEPT ![t] = "r_clear"]
    /\ UNCHANGED <<st, runq, pool, token, promise, fut, mem, pollers, npolls, loc, nops, hist>>

(* fetch_and(!POLLING), then deallocation if no reference is left *)
RClear(t) ==
    /\ pc[t] = "r_clear"
    /\ st' = [st EXCEPT !.polling = FALSE]
    /\ IF st.refs = 0
       THEN /\ mem' = "freed" /\ bad' = bad \cup Touch \cup FreeBad
       ELSE /\ UNCHANGED mem /\ bad' = bad \cup Touch
    /\ Finish(t, "ran")
    /\ UNCHANGED <<runq, pool, token, promise, fut, out, pollers, npolls, nops>>

(* Pending: fetch_sub(wake_count), AcqRel *)
RSub(t) ==
    /\ pc[t] = "r_sub"
    /\ bad' = bad \cup Touch \cup (IF st.wakes >= loc[t].wc THEN {} ELSE {"WakeUnderflow"})
    /\ LET s  == st
           nw == s.wakes - loc[t].wc
       IN  /\ st' = [st EXCEPT !.wakes = nw]
           /\ IF nw = 0 /\ ~s.closed
              THEN IF s.refs = 0
                   THEN \* nobody can ever wake the task again: drop the future and deallocate
                        /\ pc' = [pc EXCEPT ![t] = "r_orphan"]
                        /\ UNCHANGED <<loc, hist>>
                   ELSE /\ Finish(t, "ran")
              ELSE \* woken (or cancelled) while being polled: loop
                   /\ loc' = [loc EXCEPT ![t] = [@ EXCEPT !.s = [s EXCEPT !.wakes = nw], !.wc = nw]]
                   /\ pc' = [pc EXCEPT ![t] = "r_head"]
                   /\ UNCHANGED hist
    /\ UNCHANGED <<runq, pool, token, promise, fut, out, mem, pollers, npolls, nops>>

ROrphan(t) ==
    /\ pc[t] = "r_orphan"
    /\ fut' = "dropped" /\ mem' = "freed"
    /\ bad' = bad \cup DropFutureBad \cup FreeBad
    /\ Finish(t, "ran")
    /\ UNCHANGED <<st, runq, pool, token, promise, out, pollers, npolls, nops>>

-----------------------------------------------------------------------------
(* runnable::cancel: Runnable dropped, task found closed by run, or panic in poll *)
CDropFut(t) ==
    /\ pc[t] = "c_drop_fut"
    /\ fut' = "dropped"
    /\ bad' = bad \cup DropFutureBad \cup Touch
    /\ pc' = [pc EXCEPT ![t] = "c_close"]
    /\ UNCHANGED <<st, runq, pool, token, promise, out, mem, pollers, npolls, loc, nops, hist>>

(* drop guard: (s | CLOSED) & !POLLING, Release; deallocate if no reference is left *)
CClose(t) ==
    /\ pc[t] = "c_close"
    /\ st' = [st EXCEPT !.closed = TRUE, !.polling = FALSE]
    /\ IF st.refs = 0
       THEN /\ mem' = "freed" /\ bad' = bad \cup Touch \cup FreeBad
       ELSE /\ UNCHANGED mem /\ bad' = bad \cup Touch
    /\ Finish(t, IF loc[t].op = "run" THEN "ran" ELSE "ok")
    /\ UNCHANGED <<runq, pool, token, promise, fut, out, pollers, npolls, nops>>

-----------------------------------------------------------------------------
(* Wakers *)

(* after the last reference went away and no Runnable exists: drop what is left and deallocate *)
LastRefCleanup(s) ==
    /\ mem' = "freed"
    /\ IF s.polling
       THEN /\ fut' = "dropped" /\ UNCHANGED out
            /\ bad' = bad \cup Touch \cup FreeBad \cup DropFutureBad
       ELSE IF ~s.closed
       THEN /\ out' = "dropped" /\ UNCHANGED fut
            /\ bad' = bad \cup Touch \cup FreeBad \cup DropOutputBad
       ELSE /\ UNCHANGED <<fut, out>>
            /\ bad' = bad \cup Touch \cup FreeBad

(* wake_by_val: fetch_add(WAKE_INC - REF_INC), Release *)
WVal(t) ==
    /\ pc[t] = "w_val"
    /\ LET s == st IN
       /\ st' = [st EXCEPT !.wakes = @ + 1, !.refs = @ - 1]
       /\ runq' = IF s.wakes = 0 /\ ~s.closed /\ s.polling THEN runq + 1 ELSE runq
       /\ IF s.refs = 1 /\ ~s.polling
          THEN \* last reference and no poll can follow: deallocate (dropping the output if still there)
               /\ mem' = "freed" /\ UNCHANGED fut
               /\ IF ~s.closed
                  THEN out' = "dropped" /\ bad' = bad \cup Touch \cup FreeBad \cup DropOutputBad
                  ELSE UNCHANGED out /\ bad' = bad \cup Touch \cup FreeBad
          ELSE /\ UNCHANGED <<fut, out, mem>> /\ bad' = bad \cup Touch
    /\ Finish(t, "ok")
    /\ UNCHANGED <<pool, token, promise, pollers, npolls, nops>>

(* wake_by_ref: fetch_add(WAKE_INC), Release *)
WRef(t) ==
    /\ pc[t] = "w_ref"
    /\ st' = [st EXCEPT !.wakes = @ + 1]
    /\ runq' = IF st.wakes = 0 /\ ~st.closed /\ st.polling THEN runq + 1 ELSE runq
    /\ bad' = bad \cup Touch
    /\ pool' = pool + 1
    /\ Finish(t, "ok")
    /\ UNCHANGED <<token, promise, fut, out, mem, pollers, npolls, nops>>

(* clone_waker: fetch_add(REF_INC), Relaxed *)
KClone(t) ==
    /\ pc[t] = "k_clone"
    /\ st' = [st EXCEPT !.refs = @ + 1]
    /\ pool' = pool + 2
    /\ bad' = bad \cup Touch
    /\ Finish(t, "ok")
    /\ UNCHANGED <<runq, token, promise, fut, out, mem, pollers, npolls, nops>>

(* drop of a Waker, of the CancelToken or of the Promise: fetch_sub(REF_INC), Release *)
DRef(t) ==
    /\ pc[t] = "d_ref"
    /\ LET s == st IN
       /\ st' = [st EXCEPT !.refs = @ - 1]
       /\ IF s.refs = 1 /\ ~RunnableExists(s)
          THEN LastRefCleanup(s)
          ELSE /\ UNCHANGED <<fut, out, mem>> /\ bad' = bad \cup Touch
    /\ Finish(t, "ok")
    /\ UNCHANGED <<runq, pool, token, promise, pollers, npolls, nops>>

-----------------------------------------------------------------------------
(* CancelToken::cancel: fetch_update, AcqRel *)
XUpdate(t) ==
    /\ pc[t] = "x_update"
    /\ bad' = bad \cup Touch
    /\ LET s == st IN
       /\ loc' = [loc EXCEPT ![t].s = s]
       /\ IF ~s.polling
          THEN /\ st' = [st EXCEPT !.refs = @ - 1]
               /\ pc' = [pc EXCEPT ![t] = "x_done_nopoll"]
          ELSE IF RunnableExists(s)
          THEN \* the Runnable will see CLOSED and drop the future
               /\ st' = [st EXCEPT !.closed = TRUE, !.refs = @ - 1]
               /\ pc' = [pc EXCEPT ![t] = "x_ret"]
          ELSE /\ st' = [st EXCEPT !.closed = TRUE, !.polling = FALSE]
               /\ pc' = [pc EXCEPT ![t] = "x_drop_fut"]
    /\ UNCHANGED <<runq, pool, token, promise, fut, out, mem, pollers, npolls, nops, hist>>

XRet(t) ==
    /\ pc[t] = "x_ret"
    /\ Finish(t, "ok")
    /\ UNCHANGED <<st, runq, pool, token, promise, fut, out, mem, pollers, npolls, nops, bad>>

(* the task had completed: if this was the last reference, deallocate (dropping an unread output) *)
XDoneNoPoll(t) ==
    /\ pc[t] = "x_done_nopoll"
    /\ LET s == loc[t].s IN
       IF s.refs = 1
       THEN /\ mem' = "freed" /\ UNCHANGED fut
            /\ IF ~s.closed
               THEN out' = "dropped" /\ bad' = bad \cup FreeBad \cup DropOutputBad
               ELSE UNCHANGED out /\ bad' = bad \cup FreeBad
       ELSE UNCHANGED <<fut, out, mem, bad>>
    /\ Finish(t, "ok")
    /\ UNCHANGED <<st, runq, pool, token, promise, pollers, npolls, nops>>

(* no Runnable exists: the canceller drops the future itself ... *)
XDropFut(t) ==
    /\ pc[t] = "x_drop_fut"
    /\ fut' = "dropped"
    /\ bad' = bad \cup DropFutureBad \cup Touch
    /\ pc' = [pc EXCEPT ![t] = "x_unref"]
    /\ UNCHANGED <<st, runq, pool, token, promise, out, mem, pollers, npolls, loc, nops, hist>>

(* ... then gives up its reference: fetch_sub(REF_INC), Release *)
XUnref(t) ==
    /\ pc[t] = "x_unref"
    /\ st' = [st EXCEPT !.refs = @ - 1]
    /\ IF st.refs = 1
       THEN mem' = "freed" /\ bad' = bad \cup Touch \cup FreeBad
       ELSE UNCHANGED mem /\ bad' = bad \cup Touch
    /\ Finish(t, "ok")
    /\ UNCHANGED <<runq, pool, token, promise, fut, out, pollers, npolls, nops>>

-----------------------------------------------------------------------------
(* Promise::poll: fetch_update, Acquire *)
PUpdate(t) ==
    /\ pc[t] = "p_update"
    /\ IF ~st.polling /\ ~st.closed
       THEN /\ st' = [st EXCEPT !.closed = TRUE]
            /\ out' = "taken"
            /\ bad' = bad \cup Touch \cup (IF out = "alive" THEN {} ELSE {"OutputTakenWrongly"})
            /\ Finish(t, "ready")
       ELSE /\ UNCHANGED <<st, out>>
            /\ bad' = bad \cup Touch
            /\ Finish(t, IF st.closed THEN "cancelled" ELSE "pending")
    /\ promise' = TRUE
    /\ UNCHANGED <<runq, pool, token, fut, mem, pollers, npolls, nops>>

-----------------------------------------------------------------------------
Next ==
    \/ \E t \in Threads, op \in OpNames : Start(t, op)
    \/ \E t \in Threads :
          RLoad(t) \/ RHead(t) \/ RPollClone(t) \/ RPollWake(t) \/ RPollEnd(t) \/ RComplete(t) \/ RDropOut(t)
          \/ RClear(t) \/ RSub(t) \/ ROrphan(t) \/ CDropFut(t) \/ CClose(t) \/ WVal(t) \/ WRef(t) \/ KClone(t)
          \/ DRef(t) \/ XUpdate(t) \/ XRet(t) \/ XDoneNoPoll(t) \/ XDropFut(t) \/ XUnref(t) \/ PUpdate(t)

Spec == Init /\ [][Next]_vars

-----------------------------------------------------------------------------
(* Properties (C13, C05) *)

(* one poller at a time, never after completion/cancellation; each of future, output and allocation released at most once; no access after release *)
Safe == bad = {}

AllIdle == \A t \in Threads : pc[t] = "idle"

(* the reference count is the number of reference-counted handles *)
RefsExact == AllIdle /\ mem = "alloc" => st.refs = pool + (IF token THEN 1 ELSE 0) + (IF promise THEN 1 ELSE 0)

(* a Runnable exists iff the state says so (at rest) *)
RunnableConsistent == AllIdle /\ mem = "alloc" => (runq = (IF RunnableExists(st) THEN 1 ELSE 0))

(* a wake-up issued while the task is pending always leads to another poll: at rest, wakes > 0 on a pending task means a Runnable is queued *)
NoLostWake == (AllIdle /\ mem = "alloc" /\ st.polling /\ ~st.closed /\ st.wakes > 0) => runq > 0

(* when every handle is gone everything has been released exactly once *)
NoLeak ==
    (AllIdle /\ runq = 0 /\ pool = 0 /\ ~token /\ ~promise) =>
        /\ mem = "freed"
        /\ fut = "dropped"
        /\ out \in {"none", "taken", "dropped"}

(* conversely nothing is freed while a handle can still reach it *)
NoEarlyFree == (mem = "freed") => (runq = 0 /\ pool = 0 /\ ~token /\ ~promise)
=============================================================================
