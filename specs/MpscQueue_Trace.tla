--------------------------- MODULE MpscQueue_Trace ---------------------------
(***************************************************************************)
(* Trace validation for MpscQueue: real producer threads and the consumer  *)
(* thread log the start and the end (with its result) of every operation   *)
(* on the real queue under one log mutex; the atomic steps in between are  *)
(* not logged and TLC looks for an interleaving of them that explains the  *)
(* results: the trace is accepted iff it is linearisable in the sense of   *)
(* the atomic-step specification.                                          *)
(*   reset                  new queue                                      *)
(*   s  t op                Start(t) with operation op                     *)
(*   e  t ret               the operation of t has completed with ret      *)
(***************************************************************************)
EXTENDS MpscQueue, Json, IOUtils

Rec == ndJsonDeserialize(IOEnv.TRACE)

VARIABLES l, open   \* open[t]: t has logged s but not yet e

tvars == <<vars, l, open>>

Ev == Rec[l]
IsEvent(e) == l <= Len(Rec) /\ Rec[l].ev = e /\ l' = l + 1

TraceInit == Init /\ l = 1 /\ open = [t \in Threads |-> FALSE] /\ TLCSet(1, 0)

Reset ==
    /\ IsEvent("reset")
    /\ enq' = 0 /\ deq' = 0
    /\ stamp' = [i \in 0..(Cap - 1) |-> i]
    /\ cell' = [i \in 0..(Cap - 1) |-> Vacated]
    /\ pc' = [t \in Threads |-> "idle"]
    /\ opi' = [t \in Threads |-> 1]
    /\ loc' = [t \in Threads |-> NoLoc]
    /\ inCell' = [i \in 0..(Cap - 1) |-> {}]
    /\ borrow' = NoBorrow
    /\ hist' = <<>> /\ popped' = <<>> /\ bad' = {} /\ closedDone' = FALSE
    /\ pushedOk' = [p \in Producers |-> <<>>]
    /\ nextVal' = [p \in Producers |-> 1]
    /\ lastRet' = [t \in Threads |-> <<"none", "", 0>>]
    /\ open' = [t \in Threads |-> FALSE]

PcOf(o) == IF o = "push" THEN "p_load_enq" ELSE IF o = "pop" THEN "c_load" ELSE IF o = "release" THEN "r_write"
           ELSE IF o = "close" THEN "x_close" ELSE "l_load_enq"

TStart ==
    /\ IsEvent("s")
    /\ Ev.t \in Threads /\ ~open[Ev.t]
    /\ Start(Ev.t)
    /\ pc'[Ev.t] = PcOf(Ev.op)
    /\ open' = [open EXCEPT ![Ev.t] = TRUE]

TEnd ==
    /\ IsEvent("e")
    /\ Ev.t \in Threads /\ open[Ev.t] /\ pc[Ev.t] = "idle"
    /\ lastRet[Ev.t] = Ev.ret
    /\ open' = [open EXCEPT ![Ev.t] = FALSE]
    /\ UNCHANGED vars

Internal ==
    /\ \/ \E t \in Threads : open[t] /\ (XClose(t) \/ LLoadEnq(t) \/ LLoadDeq(t))
       \/ \E p \in Producers : open[p] /\ (PLoadEnq(p) \/ PCheck(p) \/ PCmp(p) \/ PWrite(p) \/ PStamp(p))
       \/ open["cons"] /\ (CLoad \/ CStoreDeq \/ CTake \/ CCheckClosed \/ RWrite \/ RStamp)
    /\ UNCHANGED <<l, open>>

TraceNext == Reset \/ TStart \/ TEnd \/ Internal

TraceSpec == TraceInit /\ [][TraceNext]_tvars

Track == IF l - 1 > TLCGet(1) THEN TLCSet(1, l - 1) ELSE TRUE

TraceAccepted ==
    LET n == TLCGet(1) IN
    IF n = Len(Rec) THEN TRUE
    ELSE /\ PrintT(<<"TRACE_REJECTED", n, ToJson(Rec[n + 1])>>)
         /\ FALSE
=============================================================================
