-------------------------------- MODULE Bench --------------------------------
(***************************************************************************)
(* Models, ports, mailboxes and tasks during one run of the executor       *)
(* (layer L3 of DESIGN.md): SimInit::init and process_event/process_query  *)
(* on a bench of scripted models, at the granularity of channel            *)
(* operations.                                                             *)
(*                                                                         *)
(* A mailbox is a bounded FIFO.  A port operation of a handler             *)
(* (Output::send, Requestor::send) is: OpStart (the broadcast creates one  *)
(* sub-send per connection that accepts the message, after map/filter_map),*)
(* then one Push per sub-send, each enabled only when the target mailbox   *)
(* has room (a sender suspended on a full mailbox is a sub-send whose Push *)
(* is disabled), for queries one reply per sub-send, then OpDone.  A model *)
(* takes one message at a time (Pop, HB ... HE).  The scheduler is         *)
(* nondeterministic: any enabled step of any task may come next, which     *)
(* covers every schedule of the single-threaded executor under the pick    *)
(* hook and every interleaving the thread pool can produce at this         *)
(* granularity.  Wake-ups are not modelled here: a task that can make      *)
(* progress is assumed to be scheduled eventually, which is what           *)
(* Channel.tla / Task.tla / Pool.tla establish; an implementation that     *)
(* loses a wake-up stalls where this specification does not, and the       *)
(* result of the run then differs.                                         *)
(***************************************************************************)
EXTENDS Naturals, Integers, Sequences, FiniteSets, TLC, SequencesExt

CONSTANTS
    ModelSeq,   \* model names (fully qualified, "parent.child"), sorted by name
    Cap,        \* Cap[m]: mailbox capacity, also for the pseudo-target "ORPHAN"
    Prog,       \* Prog[i]: sequence of ops [op, port, prog]; op in {"send", "query", "nop"}
    Ports,      \* Ports[m][p]: sequence of connections [tgt, mode, accept, delta]; Ports["drv"][k]: the driver's
                \*   k-th event / query source
                \*   tgt: model name, "ORPHAN" or "sink:<name>"; mode: "plain" | "map" | "filter"
                \*   accept: set of program numbers let through by filter_map ({} = everything)
                \*   delta: added to the program number by map / filter_map
    InitProg,   \* InitProg[m]: program run by Model::init (0 = none)
    Sinks       \* set of sink names

Models  == {ModelSeq[i] : i \in 1..Len(ModelSeq)}
Boxes   == Models \cup {"ORPHAN"}
Tasks   == Models \cup {"drv"}

VARIABLES
    phase,    \* "idle" | "run" | "ret"
    cmd,      \* current driver command
    q,        \* q[b]: mailbox content, b in Boxes
    ms,       \* ms[t]: task state, t in Tasks (see IdleTask)
    sinkLog,  \* sinkLog[s]: sequence of values written to sink s
    result,   \* result of the command (phase "ret")
    inited,   \* set of models whose init completed
    terminated,
    panicked, \* name of a model whose handler panicked during the current run ("" if none)
    \* ghost
    vc,       \* vc[t]: vector clock of task t
    seen,     \* seen[m]: set of stamps of messages m has started processing
    handled,  \* bag of handler invocations: sequence of [model, prog, kind] in start order
    sent      \* bag of accepted sends to models: sequence of [model, prog, kind] in send order

vars == <<phase, cmd, q, ms, sinkLog, result, inited, terminated, panicked, vc, seen, handled, sent>>

IdleTask == [st |-> "idle", prog |-> 0, pc |-> 0, n |-> 0, subs |-> <<>>, cur |-> [none |-> TRUE], opkind |-> "nop"]
NoCmd    == [name |-> "none"]

ZeroVC == [t \in Tasks |-> 0]

VLeq(a, b) == \A t \in Tasks : a[t] <= b[t]
VLess(a, b) == VLeq(a, b) /\ a # b
VMax(a, b) == [t \in Tasks |-> IF a[t] >= b[t] THEN a[t] ELSE b[t]]

Res(r, model, n, list) == [r |-> r, model |-> model, n |-> n, list |-> list]
ROk == Res("ok", "", 0, <<>>)

Init ==
    /\ phase = "idle"
    /\ cmd = NoCmd
    /\ q = [b \in Boxes |-> <<>>]
    /\ ms = [t \in Tasks |-> IF t \in Models THEN [IdleTask EXCEPT !.st = "uninit"] ELSE IdleTask]
    /\ sinkLog = [s \in Sinks |-> <<>>]
    /\ result = ROk
    /\ inited = {}
    /\ terminated = FALSE
    /\ panicked = ""
    /\ vc = [t \in Tasks |-> ZeroVC]
    /\ seen = [m \in Models |-> {}]
    /\ handled = <<>>
    /\ sent = <<>>

-----------------------------------------------------------------------------
(* Driver commands *)

(* SimInit::init: every model task is spawned and runs Model::init first. *)
DInit ==
    /\ phase = "idle" /\ cmd = NoCmd /\ inited = {} /\ ~terminated
    /\ \A m \in Models : ms[m].st = "uninit"
    /\ phase' = "run"
    /\ cmd' = [name |-> "init"]
    /\ UNCHANGED <<q, ms, sinkLog, result, inited, terminated, panicked, vc, seen, handled, sent>>

(* A sub-send: one message on its way to one recipient. *)
(* radd: what the connection's reply_map adds to the reply (queries through map / filter_map). *)
Sub(tgt, id, prog, kind, stamp, radd) ==
    [tgt |-> tgt, st |-> "todo", reply |-> 0, radd |-> radd,
     msg |-> [id |-> id, prog |-> prog, kind |-> kind, stamp |-> stamp]]

Accepts(c, prog) == c.mode # "filter" \/ c.accept = {} \/ prog \in c.accept
Mapped(c, prog) == IF c.mode = "plain" THEN prog ELSE prog + c.delta

(* The sub-sends of one broadcast of sender t through a port (or an event / query source): one per connection *)
(* that accepts the message, in connection order, each with its mapped message.                          *)
MakeSubs(t, n1, v1, conns, prog, isQuery) ==
    LET acc == SelectSeq([i \in 1..Len(conns) |-> [i |-> i, c |-> conns[i]]], LAMBDA e : Accepts(e.c, prog))
    IN  [k \in 1..Len(acc) |->
            Sub(acc[k].c.tgt,
                [s |-> t, n |-> n1, c |-> IF acc[k].c.mode = "plain" THEN 0 ELSE acc[k].i],
                Mapped(acc[k].c, prog),
                IF isQuery THEN "qry" ELSE "ev", v1,
                IF acc[k].c.mode = "plain" THEN 0 ELSE 100000 * acc[k].i)]

(* Event / query sources of the driver: Ports["drv"][k], named "S1", "S2", ... *)
SrcIndex(name) == CASE name = "S1" -> 1 [] name = "S2" -> 2 [] name = "S3" -> 3 [] name = "S4" -> 4 [] OTHER -> 0

(* process_event / process_query: a one-shot task that sends one message; process(source action): a one-shot *)
(* task that broadcasts through an event source or a query source ("srcevent" / "srcquery").                 *)
DProcess(kind, tgt, prog) ==
    /\ phase = "idle" /\ inited = Models
    /\ \/ kind \in {"event", "query"} /\ tgt \in Boxes
       \/ kind \in {"srcevent", "srcquery"} /\ SrcIndex(tgt) \in 1..Len(Ports["drv"])
    /\ cmd' = [name |-> kind, target |-> tgt, prog |-> prog]
    /\ IF terminated
       THEN /\ phase' = "ret" /\ result' = Res("terminated", "", 0, <<>>)
            /\ UNCHANGED <<ms, vc, sent>>
       ELSE LET n1 == ms["drv"].n + 1
                v1 == [vc["drv"] EXCEPT !["drv"] = @ + 1]
                isQ == kind \in {"query", "srcquery"}
                subs == IF kind \in {"event", "query"}
                        THEN <<Sub(tgt, [s |-> "drv", n |-> n1, c |-> 0], prog, IF isQ THEN "qry" ELSE "ev", v1, 0)>>
                        ELSE MakeSubs("drv", n1, v1, Ports["drv"][SrcIndex(tgt)], prog, isQ)
                toModels == SelectSeq(subs, LAMBDA sb : sb.tgt \in Models)
            IN  /\ phase' = "run" /\ UNCHANGED result
                /\ vc' = [vc EXCEPT !["drv"] = v1]
                /\ sent' = sent \o [k \in 1..Len(toModels) |->
                                       [model |-> toModels[k].tgt, prog |-> toModels[k].msg.prog,
                                        kind |-> toModels[k].msg.kind]]
                /\ ms' = [ms EXCEPT !["drv"] =
                            [IdleTask EXCEPT !.st = "op", !.n = n1,
                                             !.opkind = IF isQ THEN "query" ELSE "send",
                                             !.subs = subs]]
    /\ UNCHANGED <<q, sinkLog, inited, terminated, panicked, seen, handled>>

-----------------------------------------------------------------------------
(* Model tasks *)

(* Model::init starts: the model task is polled for the first time. *)
InitBegin(m) ==
    /\ phase = "run" /\ ms[m].st = "uninit"
    /\ ms' = [ms EXCEPT ![m] = [@ EXCEPT !.st = "handler", !.prog = InitProg[m], !.pc = 1,
                                         !.cur = [init |-> TRUE]]]
    /\ vc' = [vc EXCEPT ![m][m] = @ + 1]
    /\ UNCHANGED <<phase, cmd, q, sinkLog, result, inited, terminated, panicked, seen, handled, sent>>

ProgLen(p) == IF p = 0 THEN 0 ELSE Len(Prog[p])

(* The receive loop takes the next message out of the mailbox. *)
Pop(m) ==
    /\ phase = "run" /\ ms[m].st = "recv" /\ q[m] # <<>>
    /\ q' = [q EXCEPT ![m] = Tail(@)]
    /\ ms' = [ms EXCEPT ![m] = [@ EXCEPT !.st = "taken", !.cur = Head(q[m])]]
    /\ seen' = [seen EXCEPT ![m] = @ \cup {Head(q[m]).stamp}]
    /\ UNCHANGED <<phase, cmd, sinkLog, result, inited, terminated, panicked, vc, handled, sent>>

(* The handler of the message taken starts. *)
HB(m) ==
    /\ phase = "run" /\ ms[m].st = "taken"
    /\ LET msg == ms[m].cur IN
       /\ ms' = [ms EXCEPT ![m] = [@ EXCEPT !.st = "handler", !.prog = msg.prog, !.pc = 1]]
       /\ vc' = [vc EXCEPT ![m] = [VMax(@, msg.stamp) EXCEPT ![m] = @ + 1]]
       /\ handled' = Append(handled, [model |-> m, prog |-> msg.prog, kind |-> msg.kind])
    /\ UNCHANGED <<phase, cmd, q, sinkLog, result, inited, terminated, panicked, seen, sent>>

InHandler(m) == ms[m].st = "handler"
AtOp(m) == InHandler(m) /\ ms[m].pc <= ProgLen(ms[m].prog)
CurOp(m) == Prog[ms[m].prog][ms[m].pc]


(* A port operation starts: the broadcaster builds one sub-send per connection that accepts the message. *)
OpStart(m) ==
    /\ phase = "run" /\ AtOp(m)
    /\ LET op == CurOp(m)
           n1 == ms[m].n + 1
           v1 == [vc[m] EXCEPT ![m] = @ + 1]
       IN  IF op.op = "nop"
           THEN /\ ms' = [ms EXCEPT ![m].pc = @ + 1]
                /\ UNCHANGED <<vc, sent, panicked>>
           ELSE IF op.op = "panic"
           THEN \* the handler panics: the model is gone and the run will be aborted
                /\ ms' = [ms EXCEPT ![m].st = "dead"]
                /\ panicked' = m
                /\ UNCHANGED <<vc, sent>>
           ELSE LET subs     == MakeSubs(m, n1, v1, Ports[m][op.port], op.prog, op.op = "query")
                    toModels == SelectSeq(subs, LAMBDA sb : sb.tgt \in Models)
                IN  /\ ms' = [ms EXCEPT ![m] = [@ EXCEPT !.st = "op", !.n = n1, !.subs = subs, !.opkind = op.op]]
                    /\ vc' = [vc EXCEPT ![m] = v1]
                    /\ sent' = sent \o [k \in 1..Len(toModels) |->
                                           [model |-> toModels[k].tgt, prog |-> toModels[k].msg.prog,
                                            kind |-> toModels[k].msg.kind]]
                    /\ UNCHANGED panicked
    /\ UNCHANGED <<phase, cmd, q, sinkLog, result, inited, terminated, seen, handled>>

IsSink(tgt) == \E s \in Sinks : tgt = "sink:" \o s
SinkOf(tgt) == CHOOSE s \in Sinks : tgt = "sink:" \o s

(* A sub-send delivers its message: pushed into the mailbox if there is room, or written to the sink. *)
Push(t, i) ==
    /\ phase = "run" /\ ms[t].st = "op" /\ i \in 1..Len(ms[t].subs)
    /\ LET sb == ms[t].subs[i] IN
       /\ sb.st = "todo"
       /\ IF IsSink(sb.tgt)
          THEN /\ sinkLog' = [sinkLog EXCEPT ![SinkOf(sb.tgt)] = Append(@, sb.msg.prog)]
               /\ UNCHANGED q
               /\ ms' = [ms EXCEPT ![t].subs[i].st = "done"]
          ELSE /\ Len(q[sb.tgt]) < Cap[sb.tgt]
               /\ q' = [q EXCEPT ![sb.tgt] = Append(@, sb.msg)]
               /\ UNCHANGED sinkLog
               /\ ms' = [ms EXCEPT ![t].subs[i].st = IF sb.msg.kind = "qry" THEN "pushed" ELSE "done"]
    /\ UNCHANGED <<phase, cmd, result, inited, terminated, panicked, vc, seen, handled, sent>>

(* Value replied by replier m to a request carrying program p received through connection c. *)
ReplyValue(m, p) == 1000 * (CHOOSE i \in 1..Len(ModelSeq) : ModelSeq[i] = m) + p

AllSubsDone(t) == \A i \in 1..Len(ms[t].subs) : ms[t].subs[i].st = "done"

(* The port operation completes: every sub-send delivered (and, for a query, replied). *)
OpDone(t) ==
    /\ phase = "run" /\ ms[t].st = "op" /\ AllSubsDone(t)
    /\ IF t = "drv"
       THEN ms' = [ms EXCEPT ![t].st = "finished"]
       ELSE ms' = [ms EXCEPT ![t] = [@ EXCEPT !.st = "handler", !.pc = @ + 1]]
    /\ UNCHANGED <<phase, cmd, q, sinkLog, result, inited, terminated, panicked, vc, seen, handled, sent>>

(* Replies collected by a completed query, in connection order. *)
Replies(t) == [i \in 1..Len(ms[t].subs) |-> ms[t].subs[i].reply]

(* The sub-send of requester t that carried the request cur to replier m (identities of plain *)
(* connections coincide, hence the recipient is part of the match and the first one is taken). *)
FirstMatch(t, m, id) ==
    LET S == {i \in 1..Len(ms[t].subs) : /\ ms[t].subs[i].msg.id = id /\ ms[t].subs[i].tgt = m
                                          /\ ms[t].subs[i].st = "pushed"}
    IN  IF S = {} THEN 0 ELSE CHOOSE i \in S : \A j \in S : i <= j

(* The handler (or init) of m returns.  A request is answered at this point. *)
HE(m) ==
    /\ phase = "run" /\ InHandler(m) /\ ms[m].pc > ProgLen(ms[m].prog)
    /\ LET cur == ms[m].cur
           isInit == "init" \in DOMAIN cur
           isQry  == ~isInit /\ cur.kind = "qry"
           back   == IF isQry THEN cur.id.s ELSE m
       IN  /\ inited' = IF isInit THEN inited \cup {m} ELSE inited
           /\ ms' = [t \in Tasks |->
                       IF t = m
                       THEN LET base == [ms[m] EXCEPT !.st = "recv", !.prog = 0, !.pc = 0, !.cur = [none |-> TRUE],
                                                       !.subs = <<>>]
                            IN  base
                       ELSE IF isQry /\ t = back
                       THEN [ms[t] EXCEPT !.subs =
                               [i \in 1..Len(ms[t].subs) |->
                                   IF i = FirstMatch(t, m, cur.id)
                                   THEN [ms[t].subs[i] EXCEPT !.st = "done",
                                            !.reply = ReplyValue(m, cur.prog) + ms[t].subs[i].radd]
                                   ELSE ms[t].subs[i]]]
                       ELSE ms[t]]
    /\ UNCHANGED <<phase, cmd, q, sinkLog, result, terminated, panicked, vc, seen, handled, sent>>

-----------------------------------------------------------------------------
(* End of the run *)

Enabled(t) ==
    \/ t \in Models /\ ms[t].st = "uninit" /\ cmd.name = "init"
    \/ t \in Models /\ ms[t].st = "recv" /\ q[t] # <<>>
    \/ t \in Models /\ ms[t].st = "taken"
    \/ t \in Models /\ InHandler(t)
    \/ ms[t].st = "op" /\ AllSubsDone(t)
    \/ ms[t].st = "op" /\ \E i \in 1..Len(ms[t].subs) :
          /\ ms[t].subs[i].st = "todo"
          /\ IsSink(ms[t].subs[i].tgt) \/ Len(q[ms[t].subs[i].tgt]) < Cap[ms[t].subs[i].tgt]

NothingEnabled == \A t \in Tasks : ~Enabled(t)

AllQueuesEmpty == \A b \in Boxes : q[b] = <<>>

AllIdle ==
    /\ \A m \in Models : ms[m].st = "recv"
    /\ ms["drv"].st \in {"idle", "finished"}

DeadlockList ==
    SelectSeq([i \in 1..Len(ModelSeq) |-> [model |-> ModelSeq[i], n |-> Len(q[ModelSeq[i]])]],
              LAMBDA e : e.n > 0)

(* Executor::run returns: nothing can run any more. *)
(* Executor::run returns early because a model panicked (other handlers may still be making progress). *)
AbortPanic ==
    /\ phase = "run" /\ panicked # ""
    /\ result' = Res("panic", panicked, 0, <<>>)
    /\ terminated' = TRUE
    /\ phase' = "ret"
    /\ UNCHANGED <<cmd, q, ms, sinkLog, inited, panicked, vc, seen, handled, sent>>

Quiesce ==
    /\ phase = "run" /\ NothingEnabled /\ panicked = ""
    /\ result' = IF AllQueuesEmpty THEN ROk
                 ELSE IF DeadlockList # <<>> THEN Res("deadlock", "", 0, DeadlockList)
                 ELSE Res("msgloss", "", Len(q["ORPHAN"]), <<>>)
    /\ terminated' = ~AllQueuesEmpty
    /\ phase' = "ret"
    /\ UNCHANGED <<cmd, q, ms, sinkLog, inited, panicked, vc, seen, handled, sent>>

DReturn ==
    /\ phase = "ret"
    /\ phase' = "idle"
    /\ cmd' = NoCmd
    /\ panicked' = ""
    /\ ms' = [ms EXCEPT !["drv"] = [IdleTask EXCEPT !.n = ms["drv"].n]]
    /\ UNCHANGED <<q, sinkLog, result, inited, terminated, vc, seen, handled, sent>>

(* The reply returned by process_query (0 when there is none). *)
QueryReply == IF ms["drv"].st = "finished" /\ ms["drv"].opkind = "query" /\ Len(ms["drv"].subs) = 1
              THEN ms["drv"].subs[1].reply ELSE 0

-----------------------------------------------------------------------------
(* Properties *)

(* C02: a model never starts processing a message while a message that was *)
(* sent to it causally before is still on its way.                         *)
PendingFor(b) ==
    {q[b][i].stamp : i \in 1..Len(q[b])} \cup
    UNION {{ms[t].subs[i].msg.stamp : i \in {j \in 1..Len(ms[t].subs) :
                                               ms[t].subs[j].tgt = b /\ ms[t].subs[j].st = "todo"}}
           : t \in {x \in Tasks : ms[x].st = "op"}}

CausalDelivery ==
    \A m \in Models : \A y \in seen[m] : \A x \in PendingFor(m) : ~VLess(x, y)

(* C04: when the executor finds nothing to run and no message is left, no computation is half-way. *)
QuiescentMeansDone == (phase = "run" /\ NothingEnabled /\ AllQueuesEmpty /\ panicked = "") => AllIdle

(* C03: when a run completes, what was processed is exactly what was sent (to models), as multisets. *)
BagOf(seqn) == [x \in {seqn[i] : i \in 1..Len(seqn)} |-> Cardinality({i \in 1..Len(seqn) : seqn[i] = x})]

ExactlyOnce == (phase = "ret" /\ result = ROk) => BagOf(handled) = BagOf(sent)

(* nothing is processed that was not sent, at any time *)
NothingInvented ==
    \A x \in {handled[i] : i \in 1..Len(handled)} :
        Cardinality({i \in 1..Len(handled) : handled[i] = x}) <= Cardinality({i \in 1..Len(sent) : sent[i] = x})

(* C12 (as assumed here): capacity is never exceeded. *)
WithinCapacity == \A b \in Boxes : Len(q[b]) <= Cap[b]

(* C16: no message is taken by a model before its init has completed; init runs once. *)
InitOnceFirst ==
    \A m \in Models : /\ ms[m].st \in {"taken", "recv"} => m \in inited
                      /\ m \in inited => ms[m].st # "uninit"

=============================================================================
