------------------------------ MODULE MC_TaskSet ------------------------------
EXTENDS TaskSet, Json

CONSTANT Emit

Quiet == opc = "idle" /\ \A t \in Wakers : wpc[t] = "idle"
Finished == Quiet /\ ol.left = 0 /\ \A t \in Wakers : wl[t].left = 0

(* sequential histories for replay on the real TaskSet *)
EmitHist == (Emit /\ Finished) => PrintT(<<"BEHAVIOUR", ToJson(hist)>>)
=============================================================================
