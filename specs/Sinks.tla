------------------------------- MODULE Sinks -------------------------------
(***************************************************************************)
(* Event sinks (C17): EventBuffer = bounded FIFO that drops its oldest     *)
(* element on overflow, EventSlot = last-value cell; both with an          *)
(* open/closed flag that makes writes no-ops while closed.                 *)
(*                                                                         *)
(* One action per public operation.  `hist` records every operation with   *)
(* the value it must return; TLC exports each maximal behaviour and the    *)
(* harness replays it on the real EventBuffer / EventSlot (one             *)
(* implementation test per specification behaviour).                       *)
(***************************************************************************)
EXTENDS Naturals, Sequences, TLC, Json

CONSTANTS
    Kind,       \* "buffer" | "slot"
    Capacity,   \* capacity of the buffer (ignored for the slot)
    StartOpen,  \* TRUE: created with new()/with_capacity(); FALSE: *_closed()
    MaxOps      \* length of the exported behaviours

VARIABLES open, buf, nextVal, hist

vars == <<open, buf, nextVal, hist>>

None == 0   \* written values are 1, 2, 3, ...

Init ==
    /\ open = StartOpen
    /\ buf = <<>>
    /\ nextVal = 1
    /\ hist = <<>>

Log(op, ret) == hist' = Append(hist, [op |-> op, ret |-> ret])

(* EventSinkWriter::write *)
Write ==
    /\ buf' = IF ~open THEN buf
              ELSE IF Kind = "slot" THEN <<nextVal>>
              ELSE IF Len(buf) = Capacity THEN Append(Tail(buf), nextVal)
              ELSE Append(buf, nextVal)
    /\ nextVal' = nextVal + 1
    /\ Log("write", <<nextVal>>)
    /\ UNCHANGED open

(* Iterator::next *)
Next1 ==
    /\ buf' = IF buf = <<>> THEN buf ELSE Tail(buf)
    /\ Log("next", IF buf = <<>> THEN <<>> ELSE <<Head(buf)>>)
    /\ UNCHANGED <<open, nextVal>>

(* Draining the sink with a fold (EventBuffer overrides try_fold). *)
Drain ==
    /\ buf' = <<>>
    /\ Log("drain", buf)
    /\ UNCHANGED <<open, nextVal>>

Open ==
    /\ open' = TRUE
    /\ Log("open", <<>>)
    /\ UNCHANGED <<buf, nextVal>>

Close ==
    /\ open' = FALSE
    /\ Log("close", <<>>)
    /\ UNCHANGED <<buf, nextVal>>

Next == Len(hist) < MaxOps /\ (Write \/ Next1 \/ Drain \/ Open \/ Close)

Spec == Init /\ [][Next]_vars

-----------------------------------------------------------------------------
(* C17 as invariants of the specification itself *)
Bounded == Len(buf) <= (IF Kind = "slot" THEN 1 ELSE Capacity)

(* The buffer always holds the most recent writes accepted while open, in order. *)
Increasing == \A i \in 1..(Len(buf) - 1) : buf[i] < buf[i + 1]

Emit == (Len(hist) = MaxOps) => PrintT(<<"BEHAVIOUR", ToJson(hist)>>)
=============================================================================
