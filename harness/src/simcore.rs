//! Driver for the SimCore binding: executes driver command sequences on a real
//! `nexosim::Simulation` built from a JSON bench and records an ndjson trace whose
//! events correspond one-to-one to actions of specs/SimCore.tla.
//!
//! Every event is appended to the run's log while the log mutex is held, and
//! scheduling / cancelling operations are *performed* while it is held, so the
//! order of the log is the real order of those operations.

use std::any::Any;
use std::collections::HashMap;
use std::io::Write;
use std::panic::{self, AssertUnwindSafe};
use std::sync::atomic::{AtomicU64, Ordering};
use std::sync::{Arc, Mutex};
use std::time::{Duration, Instant};

use nexosim::model::{Context, InitializedModel, Model};
use nexosim::ports::{EventSource, Output, Requestor};
use nexosim::simulation::{
    Action, ActionKey, Address, ExecutionError, Mailbox, Scheduler, SchedulingError, SimInit,
    Simulation,
};
use nexosim::time::{Clock, MonotonicTime, SyncStatus};
use serde::Deserialize;
use serde_json::{json, Value};

#[derive(Deserialize, Clone, Debug)]
pub struct Op {
    pub op: String,
    pub abs: bool,
    pub d: u64,
    pub kind: String,
    pub per: u64,
    pub slot: String,
    pub prog: u32,
    pub port: usize,
}

#[derive(Deserialize, Clone, Debug)]
pub struct Bench {
    pub models: Vec<String>,
    pub prog: Vec<Vec<Op>>,
    pub conn: HashMap<String, Vec<String>>,
    pub srcconn: Vec<Vec<String>>,
    pub tolerance: i64,
    pub timeout_on: bool,
}

#[derive(Deserialize, Clone, Debug)]
pub struct Run {
    pub id: u64,
    pub threads: usize,
    pub tick_ns: u64,
    #[serde(default)]
    pub t0_secs: i64,
    #[serde(default)]
    pub t0_nanos: u32,
    #[serde(default)]
    pub lags: Vec<u64>,
    pub cmds: Vec<Value>,
    #[serde(default)]
    pub capacity: usize,
    /// delay sweep: every time the hook point `delay_point` is reached the calling thread sleeps `delay_us`
    #[serde(default)]
    pub delay_point: u32,
    #[serde(default)]
    pub delay_us: u64,
    /// C08 race: scheduling requests issued from a second thread through a `Scheduler` clone while
    /// the main thread executes `cmds`
    #[serde(default)]
    pub xsched: Vec<Value>,
    #[serde(default)]
    pub x_gap_us: u64,
    /// do not wait for an abandoned (timed-out but terminating) handler before going on: the simulation is
    /// then dropped while that handler is still running
    #[serde(default)]
    pub no_settle: bool,
}

struct DelayHooks {
    point: u32,
    us: u64,
}

impl nexosim::verif::Hooks for DelayHooks {
    fn point(&self, id: u32, _a: usize, _b: usize) {
        if id == self.point {
            std::thread::sleep(Duration::from_micros(self.us));
        }
    }
}

#[derive(Deserialize)]
pub struct Input {
    pub bench: Bench,
    pub runs: Vec<Run>,
}

#[derive(Clone, Debug)]
pub struct Payload {
    prog: u32,
    from: String,
    tok: Token,
}

/// Drop accounting (C19): every token created must be dropped exactly once.
#[derive(Debug, Default)]
pub struct Counters {
    created: [AtomicU64; 3],
    dropped: [AtomicU64; 3],
    dropping: std::sync::atomic::AtomicBool,
    late: AtomicU64,
}

pub const K_MODEL: usize = 0;
pub const K_PAYLOAD: usize = 1;
pub const K_HANDLER: usize = 2;

#[derive(Debug)]
pub struct Token {
    kind: usize,
    c: Arc<Counters>,
}

impl Token {
    fn new(kind: usize, c: &Arc<Counters>) -> Self {
        c.created[kind].fetch_add(1, Ordering::SeqCst);
        Token { kind, c: c.clone() }
    }
}

impl Clone for Token {
    fn clone(&self) -> Self {
        Token::new(self.kind, &self.c)
    }
}

impl Drop for Token {
    fn drop(&mut self) {
        self.c.dropped[self.kind].fetch_add(1, Ordering::SeqCst);
    }
}

const SLEEP_OP_MS: u64 = 2000;
const SIM_TIMEOUT_MS: u64 = 500;

struct Shared {
    counters: Arc<Counters>,
    log: Mutex<Vec<Value>>,
    prog: Vec<Vec<Op>>,
    slots: Mutex<HashMap<String, ActionKey>>,
    t0: MonotonicTime,
    tick_ns: u64,
}

impl Shared {
    fn tick_of(&self, t: MonotonicTime) -> Value {
        let d = t.duration_since(self.t0);
        let ns = d.as_nanos() as u64;
        if ns % self.tick_ns == 0 {
            json!(ns / self.tick_ns)
        } else {
            // not on the tick grid: cannot be a time of the specification
            json!(-1 - (ns as i64 % 1_000_000))
        }
    }
    fn time_of(&self, tick: u64) -> MonotonicTime {
        self.t0 + Duration::from_nanos(tick * self.tick_ns)
    }
    fn dur_of(&self, ticks: u64) -> Duration {
        Duration::from_nanos(ticks * self.tick_ns)
    }
}

fn sched_outcome<T>(r: &Result<T, SchedulingError>) -> &'static str {
    match r {
        Ok(_) => "ok",
        Err(SchedulingError::InvalidScheduledTime) => "invalid_time",
        Err(SchedulingError::NullRepetitionPeriod) => "null_period",
    }
}

pub struct ScriptModel {
    _tok: Token,
    name: String,
    outs: Vec<Output<Payload>>,
    /// one port connected to every target of the model (op "bcast")
    ball: Output<Payload>,
    selfq: Requestor<Payload, u32>,
    shared: Arc<Shared>,
}

impl ScriptModel {
    pub async fn handle(&mut self, p: Payload, cx: &mut Context<Self>) {
        self.run_prog(p, cx).await;
    }

    pub async fn reply(&mut self, p: Payload, cx: &mut Context<Self>) -> u32 {
        let prog = p.prog;
        self.run_prog(p, cx).await;
        prog
    }

    async fn run_prog(&mut self, p: Payload, cx: &mut Context<Self>) {
        let sh = self.shared.clone();
        // dropped when the handler completes or when its future is dropped half-way
        let _guard = Token::new(K_HANDLER, &sh.counters);
        {
            let mut log = sh.log.lock().unwrap();
            let t = sh.tick_of(cx.time());
            if sh.counters.dropping.load(Ordering::SeqCst) {
                // model code running while (or after) the simulation is dropped
                sh.counters.late.fetch_add(1, Ordering::SeqCst);
            }
            log.push(json!({"ev": "begin", "m": self.name, "prog": p.prog, "from": p.from, "t": t}));
        }
        let ops = sh.prog[(p.prog - 1) as usize].clone();
        for op in ops.iter() {
            match op.op.as_str() {
                "nop" => {
                    sh.log.lock().unwrap().push(json!({"ev": "op", "m": self.name, "out": "ok"}));
                }
                "sched" => {
                    let mut log = sh.log.lock().unwrap();
                    let payload = Payload { prog: op.prog, from: format!("g:{}", self.name), tok: Token::new(K_PAYLOAD, &sh.counters) };
                    let out = if op.abs {
                        self.sched_with(cx, sh.time_of(op.d), op, payload)
                    } else {
                        self.sched_with(cx, sh.dur_of(op.d), op, payload)
                    };
                    log.push(json!({"ev": "op", "m": self.name, "out": out}));
                }
                "cancel" => {
                    let mut log = sh.log.lock().unwrap();
                    if let Some(k) = sh.slots.lock().unwrap().get(&op.slot) {
                        k.clone().cancel();
                    }
                    log.push(json!({"ev": "op", "m": self.name, "out": "ok"}));
                }
                "send" => {
                    sh.log.lock().unwrap().push(json!({"ev": "op", "m": self.name, "out": "ok"}));
                    let payload = Payload { prog: op.prog, from: self.name.clone(), tok: Token::new(K_PAYLOAD, &sh.counters) };
                    self.outs[op.port - 1].send(payload).await;
                }
                "bcast" => {
                    sh.log.lock().unwrap().push(json!({"ev": "op", "m": self.name, "out": "ok"}));
                    let payload = Payload { prog: op.prog, from: self.name.clone(), tok: Token::new(K_PAYLOAD, &sh.counters) };
                    self.ball.send(payload).await;
                }
                "panic" => {
                    sh.log.lock().unwrap().push(json!({"ev": "op", "m": self.name, "out": "ok"}));
                    panic::panic_any(format!("boom:{}", self.name));
                }
                "qself" => {
                    sh.log.lock().unwrap().push(json!({"ev": "op", "m": self.name, "out": "ok"}));
                    let payload = Payload { prog: op.prog, from: self.name.clone(), tok: Token::new(K_PAYLOAD, &sh.counters) };
                    let _ = self.selfq.send(payload).await.count();
                }
                "sleep" => {
                    sh.log.lock().unwrap().push(json!({"ev": "op", "m": self.name, "out": "ok"}));
                    std::thread::sleep(Duration::from_millis(SLEEP_OP_MS));
                }
                other => panic!("harness: unknown op {}", other),
            }
        }
    }

    fn sched_with<D: nexosim::time::Deadline>(
        &self,
        cx: &mut Context<Self>,
        deadline: D,
        op: &Op,
        payload: Payload,
    ) -> &'static str {
        let sh = &self.shared;
        match op.kind.as_str() {
            "once" => sched_outcome(&cx.schedule_event(deadline, Self::handle, payload)),
            "keyed" => {
                let r = cx.schedule_keyed_event(deadline, Self::handle, payload);
                let out = sched_outcome(&r);
                if let Ok(k) = r {
                    sh.slots.lock().unwrap().insert(op.slot.clone(), k);
                }
                out
            }
            "periodic" => sched_outcome(&cx.schedule_periodic_event(
                deadline,
                sh.dur_of(op.per),
                Self::handle,
                payload,
            )),
            "kperiodic" => {
                let r = cx.schedule_keyed_periodic_event(
                    deadline,
                    sh.dur_of(op.per),
                    Self::handle,
                    payload,
                );
                let out = sched_outcome(&r);
                if let Ok(k) = r {
                    sh.slots.lock().unwrap().insert(op.slot.clone(), k);
                }
                out
            }
            other => panic!("harness: unknown kind {}", other),
        }
    }
}

impl Model for ScriptModel {
    async fn init(self, _cx: &mut Context<Self>) -> InitializedModel<Self> {
        self.shared.log.lock().unwrap().push(json!({"ev": "init", "m": self.name}));
        self.into()
    }
}

struct ScriptClock {
    lags: Vec<u64>,
    idx: usize,
    shared: Arc<Shared>,
    /// delay point 44: the clock blocks for this long inside `synchronize`, as a real-time clock does
    block_us: u64,
}

impl Clock for ScriptClock {
    fn synchronize(&mut self, deadline: MonotonicTime) -> SyncStatus {
        let lag = self.lags.get(self.idx).copied().unwrap_or(0);
        self.idx += 1;
        let t = self.shared.tick_of(deadline);
        self.shared.log.lock().unwrap().push(json!({"ev": "sync", "t": t, "lag": lag}));
        if self.block_us > 0 {
            std::thread::sleep(Duration::from_micros(self.block_us));
        }
        if lag == 0 {
            SyncStatus::Synchronized
        } else {
            SyncStatus::OutOfSync(self.shared.dur_of(lag))
        }
    }
}

fn payload_string(p: &Box<dyn Any + Send>) -> String {
    if let Some(s) = p.downcast_ref::<&str>() {
        s.to_string()
    } else if let Some(s) = p.downcast_ref::<String>() {
        s.clone()
    } else {
        "<non-string payload>".to_string()
    }
}

fn res(r: &str, model: &str, n: u64, list: Value) -> Value {
    json!({"r": r, "model": model, "n": n, "list": list})
}

fn exec_result(sh: &Shared, r: Result<(), ExecutionError>) -> Value {
    match r {
        Ok(()) => res("ok", "", 0, json!([])),
        Err(ExecutionError::Terminated) => res("terminated", "", 0, json!([])),
        Err(ExecutionError::Deadlock(l)) => {
            let list: Vec<Value> =
                l.iter().map(|d| json!({"model": d.model, "n": d.mailbox_size})).collect();
            res("deadlock", "", 0, json!(list))
        }
        Err(ExecutionError::MessageLoss(n)) => res("msgloss", "", n as u64, json!([])),
        Err(ExecutionError::NoRecipient { model }) => {
            res("norecipient", &model.unwrap_or_default(), 0, json!([]))
        }
        Err(ExecutionError::Panic { model, payload }) => {
            // the payload must be the one thrown by the model: "boom:<model>"
            let s = payload_string(&payload);
            if s == format!("boom:{}", model) {
                res("panic", &model, 0, json!([]))
            } else {
                res("panic", &format!("{}|payload={}", model, s), 0, json!([]))
            }
        }
        Err(ExecutionError::Timeout) => res("timeout", "", 0, json!([])),
        Err(ExecutionError::OutOfSync(lag)) => {
            let ns = lag.as_nanos() as u64;
            if ns % sh.tick_ns == 0 {
                res("outofsync", "", ns / sh.tick_ns, json!([]))
            } else {
                res("outofsync", &format!("offgrid:{}", ns), 0, json!([]))
            }
        }
        Err(ExecutionError::BadQuery) => res("badquery", "", 0, json!([])),
        Err(ExecutionError::InvalidDeadline(t)) => {
            let tv = sh.tick_of(t);
            match tv.as_u64() {
                Some(n) => res("invalid_deadline", "", n, json!([])),
                None => res("invalid_deadline", &format!("offgrid:{}", tv), 0, json!([])),
            }
        }
    }
}

thread_local! { static TIMED_OUT: std::cell::Cell<bool> = const { std::cell::Cell::new(false) }; }

/// Number of threads of this process (Linux).
fn thread_count() -> u64 {
    std::fs::read_dir("/proc/self/task").map(|d| d.count() as u64).unwrap_or(0)
}

pub static HEARTBEAT: AtomicU64 = AtomicU64::new(0);
pub static HEARTBEAT_ALLOW_MS: AtomicU64 = AtomicU64::new(0);

fn beat(start: &Instant, allow_ms: u64) {
    HEARTBEAT_ALLOW_MS.store(allow_ms, Ordering::SeqCst);
    HEARTBEAT.store(start.elapsed().as_millis() as u64 + 1, Ordering::SeqCst);
}

struct World {
    sh: Arc<Shared>,
    simu: Option<Simulation>,
    scheduler: Scheduler,
    addrs: HashMap<String, Address<ScriptModel>>,
    sources: Vec<EventSource<Payload>>,
    _orphan: Mailbox<ScriptModel>,
}

fn build(bench: &Bench, run: &Run, out: &mut dyn Write) -> World {
    let t0 = MonotonicTime::new(run.t0_secs, run.t0_nanos).unwrap();
    let sh = Arc::new(Shared {
        counters: Arc::new(Counters::default()),
        log: Mutex::new(Vec::new()),
        prog: bench.prog.clone(),
        slots: Mutex::new(HashMap::new()),
        t0,
        tick_ns: run.tick_ns,
    });
    let cap = if run.capacity == 0 { 64 } else { run.capacity };
    let mut mailboxes: Vec<Mailbox<ScriptModel>> =
        bench.models.iter().map(|_| Mailbox::with_capacity(cap)).collect();
    let mut addrs: HashMap<String, Address<ScriptModel>> = HashMap::new();
    for (i, m) in bench.models.iter().enumerate() {
        addrs.insert(m.clone(), mailboxes[i].address());
    }
    let orphan: Mailbox<ScriptModel> = Mailbox::with_capacity(cap);
    addrs.insert("ORPHAN".to_string(), orphan.address());
    {
        let dead: Mailbox<ScriptModel> = Mailbox::with_capacity(cap);
        addrs.insert("DEAD".to_string(), dead.address());
    }
    let mut init = SimInit::with_num_threads(run.threads);
    for (i, m) in bench.models.iter().enumerate().rev() {
        let _ = i;
        let _ = m;
    }
    let mut models = Vec::new();
    for m in bench.models.iter() {
        let mut outs = Vec::new();
        let mut ball = Output::new();
        for tgt in bench.conn.get(m).cloned().unwrap_or_default() {
            let mut o = Output::new();
            o.connect(ScriptModel::handle, addrs.get(&tgt).unwrap());
            outs.push(o);
            ball.connect(ScriptModel::handle, addrs.get(&tgt).unwrap());
        }
        let mut selfq = Requestor::new();
        selfq.connect(ScriptModel::reply, addrs.get(m).unwrap());
        models.push(ScriptModel { _tok: Token::new(K_MODEL, &sh.counters), name: m.clone(), outs, ball, selfq, shared: sh.clone() });
    }
    for (m, model) in bench.models.iter().zip(models.into_iter()) {
        let mb = mailboxes.remove(0);
        init = init.add_model(model, mb, m.clone());
    }
    let mut sources = Vec::new();
    for tg in bench.srcconn.iter() {
        let mut s = EventSource::new();
        for t in tg {
            s.connect(ScriptModel::handle, addrs.get(t).unwrap());
        }
        sources.push(s);
    }
    init = init.set_clock(ScriptClock {
        lags: run.lags.clone(),
        idx: 0,
        shared: sh.clone(),
        block_us: if run.delay_point == 44 { run.delay_us } else { 0 },
    });
    if bench.tolerance >= 0 {
        init = init.set_clock_tolerance(sh.dur_of(bench.tolerance as u64));
    }
    if bench.timeout_on {
        init = init.set_timeout(Duration::from_millis(SIM_TIMEOUT_MS));
    }
    let r = panic::catch_unwind(AssertUnwindSafe(move || init.init(t0)));
    match r {
        Ok(Ok((simu, scheduler))) => {
            flush(&sh, out);
            World { sh, simu: Some(simu), scheduler, addrs, sources, _orphan: orphan }
        }
        Ok(Err(e)) => panic!("harness: init failed: {:?}", e),
        Err(_) => panic!("harness: init panicked"),
    }
}

fn flush(sh: &Shared, out: &mut dyn Write) {
    let mut log = sh.log.lock().unwrap();
    for e in log.drain(..) {
        writeln!(out, "{}", e).unwrap();
    }
    out.flush().unwrap();
}

fn emit(sh: &Shared, out: &mut dyn Write, v: Value) {
    sh.log.lock().unwrap().push(v);
    flush(sh, out);
}

fn s(v: &Value, k: &str) -> String {
    v[k].as_str().unwrap_or_else(|| panic!("harness: missing string field {}", k)).to_string()
}
fn u(v: &Value, k: &str) -> u64 {
    v[k].as_u64().unwrap_or_else(|| panic!("harness: missing int field {}", k))
}
fn b(v: &Value, k: &str) -> bool {
    v[k].as_bool().unwrap_or_else(|| panic!("harness: missing bool field {}", k))
}

fn driver_sched(w: &mut World, c: &Value) -> &'static str {
    let sh = w.sh.clone();
    let cls = s(c, "cls");
    let kind = s(c, "kind");
    let abs = b(c, "abs");
    let d = u(c, "d");
    let per = u(c, "per");
    let slot = s(c, "slot");
    let prog = u(c, "prog") as u32;
    let payload = Payload { prog, from: "g:drv".to_string(), tok: Token::new(K_PAYLOAD, &sh.counters) };
    // performed under the log lock so that the position of the command in the trace is exact
    let _g = sh.log.lock().unwrap();
    macro_rules! with_deadline {
        ($f:expr) => {
            if abs {
                $f(sh.time_of(d))
            } else {
                $f(sh.dur_of(d))
            }
        };
    }
    if cls == "ev" {
        let addr = w.addrs.get(&s(c, "target")).unwrap().clone();
        let sched = w.scheduler.clone();
        match kind.as_str() {
            "once" => {
                if abs {
                    sched_outcome(&sched.schedule_event(sh.time_of(d), ScriptModel::handle, payload, &addr))
                } else {
                    sched_outcome(&sched.schedule_event(sh.dur_of(d), ScriptModel::handle, payload, &addr))
                }
            }
            "keyed" => {
                let r = if abs {
                    sched.schedule_keyed_event(sh.time_of(d), ScriptModel::handle, payload, &addr)
                } else {
                    sched.schedule_keyed_event(sh.dur_of(d), ScriptModel::handle, payload, &addr)
                };
                let out = sched_outcome(&r);
                if let Ok(k) = r {
                    sh.slots.lock().unwrap().insert(slot, k);
                }
                out
            }
            "periodic" => {
                if abs {
                    sched_outcome(&sched.schedule_periodic_event(
                        sh.time_of(d), sh.dur_of(per), ScriptModel::handle, payload, &addr))
                } else {
                    sched_outcome(&sched.schedule_periodic_event(
                        sh.dur_of(d), sh.dur_of(per), ScriptModel::handle, payload, &addr))
                }
            }
            "kperiodic" => {
                let r = if abs {
                    sched.schedule_keyed_periodic_event(
                        sh.time_of(d), sh.dur_of(per), ScriptModel::handle, payload, &addr)
                } else {
                    sched.schedule_keyed_periodic_event(
                        sh.dur_of(d), sh.dur_of(per), ScriptModel::handle, payload, &addr)
                };
                let out = sched_outcome(&r);
                if let Ok(k) = r {
                    sh.slots.lock().unwrap().insert(slot, k);
                }
                out
            }
            other => panic!("harness: unknown kind {}", other),
        }
    } else {
        let src = (u(c, "target") - 1) as usize;
        let (action, key): (Action, Option<ActionKey>) = match kind.as_str() {
            "once" => (w.sources[src].event(payload), None),
            "keyed" => {
                let (a, k) = w.sources[src].keyed_event(payload);
                (a, Some(k))
            }
            "periodic" => (w.sources[src].periodic_event(sh.dur_of(per), payload), None),
            "kperiodic" => {
                let (a, k) = w.sources[src].keyed_periodic_event(sh.dur_of(per), payload);
                (a, Some(k))
            }
            other => panic!("harness: unknown kind {}", other),
        };
        let sched = w.scheduler.clone();
        let r = with_deadline!(|dl| sched.schedule(dl, action));
        let out = sched_outcome(&r);
        if r.is_ok() {
            if let Some(k) = key {
                sh.slots.lock().unwrap().insert(slot, k);
            }
        }
        out
    }
}

/// A scheduling request from the second thread (model-input events only), NOT under the log lock.
fn xthread_sched(
    sh: &Shared,
    sched: &Scheduler,
    addrs: &HashMap<String, Address<ScriptModel>>,
    c: &Value,
) -> &'static str {
    let kind = s(c, "kind");
    let abs = b(c, "abs");
    let d = u(c, "d");
    let per = u(c, "per");
    let slot = s(c, "slot");
    let prog = u(c, "prog") as u32;
    let payload = Payload { prog, from: "g:drv".to_string(), tok: Token::new(K_PAYLOAD, &sh.counters) };
    let addr = addrs.get(&s(c, "target")).unwrap().clone();
    macro_rules! go {
        ($dl:expr) => {
            match kind.as_str() {
                "once" => sched_outcome(&sched.schedule_event($dl, ScriptModel::handle, payload, &addr)),
                "keyed" => {
                    let r = sched.schedule_keyed_event($dl, ScriptModel::handle, payload, &addr);
                    let out = sched_outcome(&r);
                    if let Ok(k) = r {
                        sh.slots.lock().unwrap().insert(slot, k);
                    }
                    out
                }
                "periodic" => sched_outcome(&sched.schedule_periodic_event(
                    $dl, sh.dur_of(per), ScriptModel::handle, payload, &addr)),
                _ => {
                    let r = sched.schedule_keyed_periodic_event(
                        $dl, sh.dur_of(per), ScriptModel::handle, payload, &addr);
                    let out = sched_outcome(&r);
                    if let Ok(k) = r {
                        sh.slots.lock().unwrap().insert(slot, k);
                    }
                    out
                }
            }
        };
    }
    if abs {
        go!(sh.time_of(d))
    } else {
        go!(sh.dur_of(d))
    }
}

/// Executes one run; events are written to `out` as they are produced.
pub fn execute(bench: &Bench, run: &Run, out: &mut dyn Write, start: &Instant) {
    writeln!(
        out,
        "{}",
        json!({"ev": "reset", "run": run.id, "threads": run.threads, "tick_ns": run.tick_ns})
    )
    .unwrap();
    beat(start, 10_000);
    if run.delay_point != 0 {
        nexosim::verif::install(Some(Arc::new(DelayHooks { point: run.delay_point, us: run.delay_us })));
    } else {
        nexosim::verif::install(None);
    }
    let threads_before = thread_count();
    let mut w = build(bench, run, out);
    let sh = w.sh.clone();
    let xthread = if run.xsched.is_empty() {
        None
    } else {
        let reqs = run.xsched.clone();
        let gap = run.x_gap_us;
        let sched = w.scheduler.clone();
        let addrs = w.addrs.clone();
        let sh = sh.clone();
        Some(std::thread::spawn(move || {
            for c in reqs.iter() {
                if gap > 0 {
                    std::thread::sleep(Duration::from_micros(gap));
                }
                let mut evs = c.clone();
                evs["ev"] = json!("xs");
                sh.log.lock().unwrap().push(evs);
                let out = xthread_sched(&sh, &sched, &addrs, c);
                sh.log.lock().unwrap().push(json!({"ev": "xe", "out": out}));
            }
        }))
    };
    for c in run.cmds.iter() {
        beat(start, 10_000 + 2 * SLEEP_OP_MS);
        let name = s(c, "c");
        match name.as_str() {
            "sched" => {
                let outc = driver_sched(&mut w, c);
                let mut ev = c.clone();
                ev["ev"] = json!("cmd");
                ev["out"] = json!(outc);
                emit(&sh, out, ev);
            }
            "cancel" => {
                {
                    let _g = sh.log.lock().unwrap();
                    let how = c["how"].as_str().unwrap_or("cancel");
                    let mut slots = sh.slots.lock().unwrap();
                    let slot = s(c, "slot");
                    if how == "auto" {
                        // turn the handle kept in the slot into an auto key and drop it
                        if let Some(k) = slots.get(&slot) {
                            let auto = k.clone().into_auto();
                            drop(auto);
                        }
                    } else if let Some(k) = slots.get(&slot) {
                        k.clone().cancel();
                    }
                }
                let mut ev = c.clone();
                ev["ev"] = json!("cmd");
                emit(&sh, out, ev);
            }
            "step" | "step_until" | "process" => {
                let mut ev = c.clone();
                ev["ev"] = json!("cmd");
                emit(&sh, out, ev);
                let simu = w.simu.as_mut().unwrap();
                let r = panic::catch_unwind(AssertUnwindSafe(|| match name.as_str() {
                    "step" => exec_result(&sh, simu.step()),
                    "step_until" => {
                        if b(c, "abs") {
                            exec_result(&sh, simu.step_until(sh.time_of(u(c, "d"))))
                        } else {
                            exec_result(&sh, simu.step_until(sh.dur_of(u(c, "d"))))
                        }
                    }
                    _ => {
                        let kind = s(c, "kind");
                        let prog = u(c, "prog") as u32;
                        let payload = Payload { prog, from: "drv".to_string(), tok: Token::new(K_PAYLOAD, &sh.counters) };
                        match kind.as_str() {
                            "event" => {
                                let addr = w.addrs.get(&s(c, "target")).unwrap().clone();
                                exec_result(&sh, simu.process_event(ScriptModel::handle, payload, &addr))
                            }
                            "query" => {
                                let addr = w.addrs.get(&s(c, "target")).unwrap().clone();
                                match simu.process_query(ScriptModel::reply, payload, &addr) {
                                    Ok(v) => {
                                        if v == prog {
                                            res("ok", "", 0, json!([]))
                                        } else {
                                            res("ok", &format!("wrong reply {}", v), 0, json!([]))
                                        }
                                    }
                                    Err(e) => exec_result(&sh, Err(e)),
                                }
                            }
                            "action" => {
                                let src = (u(c, "target") - 1) as usize;
                                let action = w.sources[src].event(payload);
                                exec_result(&sh, simu.process(action))
                            }
                            other => panic!("harness: unknown process kind {}", other),
                        }
                    }
                }));
                let resv = match r {
                    Ok(v) => v,
                    Err(p) => res("PANICKED", &payload_string(&p), 0, json!([])),
                };
                if resv["r"] == "timeout" {
                    TIMED_OUT.with(|t| t.set(true));
                    if !run.no_settle {
                        // let the abandoned handler finish before going on
                        std::thread::sleep(Duration::from_millis(SLEEP_OP_MS + 500));
                    }
                }
                let t = sh.tick_of(simu.time());
                emit(&sh, out, json!({"ev": "ret", "res": resv, "t": t}));
                let r = resv["r"].as_str().unwrap_or("");
                if run.threads > 1 && (r == "panic" || r == "norecipient") {
                    // the other workers stop as soon as they see the abort flag: let the handlers they
                    // were running finish so that their events are not mistaken for later activity
                    std::thread::sleep(Duration::from_millis(30));
                    flush(&sh, out);
                }
            }
            other => panic!("harness: unknown command {}", other),
        }
    }
    if let Some(h) = xthread {
        let _ = h.join();
    }
    flush(&sh, out);
    beat(start, 20_000);
    // C19: dropping the simulation (with its scheduler handle, addresses and event sources) must
    // return, release every model, message and handler future exactly once and join the workers.
    let timed_out = TIMED_OUT.with(|t| t.replace(false));
    let counters = sh.counters.clone();
    counters.dropping.store(true, Ordering::SeqCst);
    let simu = w.simu.take();
    drop(simu);
    drop(w);
    sh.slots.lock().unwrap().clear();
    // A joined thread may still be listed for a moment while the kernel reaps it: let the count settle.
    let mut threads_after = thread_count();
    let mut tries = 0;
    while threads_after > threads_before && tries < 100 {
        std::thread::sleep(Duration::from_millis(10));
        threads_after = thread_count();
        tries += 1;
    }
    let c = |k: usize| counters.created[k].load(Ordering::SeqCst);
    let d = |k: usize| counters.dropped[k].load(Ordering::SeqCst);
    flush(&sh, out);
    writeln!(
        out,
        "{}",
        json!({"ev": "drop", "models": [c(K_MODEL), d(K_MODEL)], "payloads": [c(K_PAYLOAD), d(K_PAYLOAD)],
               "handlers": [c(K_HANDLER), d(K_HANDLER)], "threads": [threads_before, threads_after],
               "late": counters.late.load(Ordering::SeqCst), "abandoned": timed_out})
    )
    .unwrap();
    writeln!(out, "{}", json!({"ev": "end", "run": run.id})).unwrap();
    out.flush().unwrap();
}

pub fn main(args: &[String]) {
    let input: Input = serde_json::from_reader(std::io::BufReader::new(
        std::fs::File::open(&args[0]).expect("input file"),
    ))
    .expect("input json");
    let mut out: Box<dyn Write> = Box::new(std::io::BufWriter::new(
        std::fs::File::create(&args[1]).expect("output file"),
    ));
    let start = Instant::now();
    // Watchdog: a command that does not return is reported as a `hang` event and the process exits
    // with status 3; the orchestrator restarts after the offending run.
    let hang_path = format!("{}.hang", &args[1]);
    let _ = std::fs::remove_file(&hang_path);
    {
        let start = start;
        let hang_path = hang_path.clone();
        std::thread::spawn(move || loop {
            std::thread::sleep(Duration::from_millis(200));
            let hb = HEARTBEAT.load(Ordering::SeqCst);
            let allow = HEARTBEAT_ALLOW_MS.load(Ordering::SeqCst);
            if hb != 0 && start.elapsed().as_millis() as u64 > hb + allow {
                let _ = std::fs::write(&hang_path, "hang\n");
                std::process::exit(3);
            }
        });
    }
    panic::set_hook(Box::new(|_| {}));
    for run in input.runs.iter() {
        execute(&input.bench, run, &mut *out, &start);
    }
    HEARTBEAT.store(0, Ordering::SeqCst);
}
