//! Replay engine for PortClones.tla: connect / send / clone sequences on real clones of an `Output`.

use std::future::Future;
use std::io::Write;
use std::pin::Pin;
use std::sync::Arc;
use std::task::{Context, Poll, Wake, Waker};

use nexosim::ports::{EventBuffer, Output};
use serde::Deserialize;
use serde_json::json;

#[derive(Deserialize)]
struct OpRec {
    op: String,
    c: usize,
}

#[derive(Deserialize)]
struct Input {
    behaviours: Vec<Vec<OpRec>>,
}

struct NoopWake;
impl Wake for NoopWake {
    fn wake(self: Arc<Self>) {}
}

fn block_on<F: Future>(mut f: Pin<&mut F>) -> F::Output {
    let waker = Waker::from(Arc::new(NoopWake));
    let mut cx = Context::from_waker(&waker);
    for _ in 0..1000 {
        if let Poll::Ready(v) = f.as_mut().poll(&mut cx) {
            return v;
        }
    }
    panic!("send to sinks did not complete");
}

pub fn main(args: &[String]) {
    let inp: Input =
        serde_json::from_reader(std::io::BufReader::new(std::fs::File::open(&args[0]).expect("input"))).expect("json");
    let mut out = std::io::BufWriter::new(std::fs::File::create(&args[1]).expect("output"));
    for b in inp.behaviours.iter() {
        let mut clones: Vec<Output<u64>> = vec![Output::new()];
        let mut sinks: Vec<EventBuffer<u64>> = Vec::new();
        let mut res = Vec::new();
        let mut nsent = 0u64;
        for o in b.iter() {
            match o.op.as_str() {
                "connect" => {
                    let s = EventBuffer::with_capacity(64);
                    clones[o.c - 1].connect_sink(&s);
                    sinks.push(s);
                    res.push(json!([]));
                }
                "clone" => {
                    let c = clones[o.c - 1].clone();
                    clones.push(c);
                    res.push(json!([]));
                }
                "send" => {
                    nsent += 1;
                    {
                        let fut = clones[o.c - 1].send(nsent);
                        let mut fut = std::pin::pin!(fut);
                        block_on(fut.as_mut());
                    }
                    // which sinks received this value (1-based, in connection order)
                    let mut reach = Vec::new();
                    for (i, s) in sinks.iter_mut().enumerate() {
                        let got: Vec<u64> = s.by_ref().collect();
                        if got.contains(&nsent) {
                            reach.push(i + 1);
                        }
                    }
                    res.push(json!(reach));
                }
                other => panic!("unknown op {}", other),
            }
        }
        writeln!(out, "{}", json!(res)).unwrap();
    }
    out.flush().unwrap();
}
