//! Replay engine for PortClones.tla: connect / send / clone sequences on real clones of an `Output`.

use std::future::Future;
use std::io::Write;
use std::pin::Pin;
use std::sync::Arc;
use std::task::{Context, Poll, Wake, Waker};

use nexosim::ports::{EventBuffer, Output};
use serde::Deserialize;
use serde_json::json;

#[derive(Deserialize)]
struct OpRec {
    op: String,
    c: usize,
}

#[derive(Deserialize)]
struct Input {
    behaviours: Vec<Vec<OpRec>>,
}

struct NoopWake;
impl Wake for NoopWake {
    fn wake(self: Arc<Self>) {}
}

fn block_on<F: Future>(mut f: Pin<&mut F>) -> F::Output {
    let waker = Waker::from(Arc::new(NoopWake));
    let mut cx = Context::from_waker(&waker);
    for _ in 0..1000 {
        if let Poll::Ready(v) = f.as_mut().poll(&mut cx) {
            return v;
        }
    }
    panic!("send to sinks did not complete");
}

pub fn main(args: &[String]) {
    let inp: Input =
        serde_json::from_reader(std::io::BufReader::new(std::fs::File::open(&args[0]).expect("input"))).expect("json");
    let mut out = std::io::BufWriter::new(std::fs::File::create(&args[1]).expect("output"));
    for b in inp.behaviours.iter() {
        let mut clones: Vec<Output<u64>> = vec![Output::new()];
        let mut sinks: Vec<EventBuffer<u64>> = Vec::new();
        let mut res = Vec::new();
        let mut nsent = 0u64;
        for o in b.iter() {
            match o.op.as_str() {
                "connect" => {
                    let s = EventBuffer::with_capacity(64);
                    clones[o.c - 1].connect_sink(&s);
                    sinks.push(s);
                    res.push(json!([]));
                }
                "clone" => {
                    let c = clones[o.c - 1].clone();
                    clones.push(c);
                    res.push(json!([]));
                }
                "send" => {
                    nsent += 1;
                    {
                        let fut = clones[o.c - 1].send(nsent);
                        let mut fut = std::pin::pin!(fut);
                        block_on(fut.as_mut());
                    }
                    // which sinks received this value (1-based, in connection order)
                    let mut reach = Vec::new();
                    for (i, s) in sinks.iter_mut().enumerate() {
                        let got: Vec<u64> = s.by_ref().collect();
                        if got.contains(&nsent) {
                            reach.push(i + 1);
                        }
                    }
                    res.push(json!(reach));
                }
                other => panic!("unknown op {}", other),
            }
        }
        writeln!(out, "{}", json!(res)).unwrap();
    }
    out.flush().unwrap();
}

// ---------------------------------------------------------------------------------------------------------------------
// Concurrent mode (CachedRwLock_Trace.tla): every thread owns one clone of the same `Output`; in round k all threads log
// the start of their k-th operation, meet at a spinning barrier, perform it at the same instant (connect of a fresh
// sink, or send of a fresh value) and log its end.  Which sinks a send reached is read from the sinks afterwards.

#[derive(Deserialize)]
struct ConcInput {
    /// programs[p][t] = operations ("connect" | "send") of thread t
    programs: Vec<Vec<Vec<String>>>,
    repeat: usize,
    /// delay sweep: the thread that reaches hook point `delay_point` (60..63, in CachedRwLock) sleeps `delay_us`
    #[serde(default)]
    delay_point: u32,
    #[serde(default)]
    delay_us: u64,
}

struct ConcDelay {
    point: u32,
    us: u64,
}
impl nexosim::verif::Hooks for ConcDelay {
    fn point(&self, id: u32, _a: usize, _b: usize) {
        if id == self.point {
            std::thread::sleep(std::time::Duration::from_micros(self.us));
        }
    }
}

struct SpinBarrier {
    n: usize,
    count: std::sync::atomic::AtomicUsize,
    gen: std::sync::atomic::AtomicUsize,
}
impl SpinBarrier {
    fn wait(&self) {
        use std::sync::atomic::Ordering;
        let g = self.gen.load(Ordering::Acquire);
        if self.count.fetch_add(1, Ordering::AcqRel) + 1 == self.n {
            self.count.store(0, Ordering::Relaxed);
            self.gen.store(g + 1, Ordering::Release);
        } else {
            while self.gen.load(Ordering::Acquire) == g {
                std::hint::spin_loop();
            }
        }
    }
}

struct ConcLog {
    events: Vec<serde_json::Value>,
    next_id: u64,
    next_val: u64,
    sinks: Vec<(u64, EventBuffer<u64>)>,
}

fn conc_run(prog: &[Vec<String>], out: &mut impl Write) {
    use std::sync::Mutex;
    let names: Vec<String> = (0..prog.len()).map(|t| format!("t{}", t + 1)).collect();
    let log = Arc::new(Mutex::new(ConcLog {
        events: vec![json!({"ev": "reset", "clones": names})],
        next_id: 1,
        next_val: 1,
        sinks: Vec::new(),
    }));
    let rounds = prog.iter().map(|p| p.len()).max().unwrap_or(0);
    let barrier = Arc::new(SpinBarrier {
        n: prog.len(),
        count: std::sync::atomic::AtomicUsize::new(0),
        gen: std::sync::atomic::AtomicUsize::new(0),
    });
    let first: Output<u64> = Output::new();
    let mut hs = Vec::new();
    for (t, ops) in prog.iter().enumerate() {
        let (log, barrier, ops, name) = (log.clone(), barrier.clone(), ops.clone(), names[t].clone());
        let mut port = first.clone();
        hs.push(std::thread::spawn(move || {
            for k in 0..rounds {
                // start event (and the identity of the sink / value of this operation), under the log's lock
                let mut sink = None;
                let mut val = 0;
                match ops.get(k).map(|s| s.as_str()) {
                    Some("connect") => {
                        let mut l = log.lock().unwrap();
                        let id = l.next_id;
                        l.next_id += 1;
                        l.events.push(json!({"ev": "cs", "c": name, "id": id}));
                        let s = EventBuffer::with_capacity(4096);
                        sink = Some((id, s));
                    }
                    Some("send") => {
                        let mut l = log.lock().unwrap();
                        val = l.next_val;
                        l.next_val += 1;
                        l.events.push(json!({"ev": "ss", "c": name, "v": val}));
                    }
                    _ => {}
                }
                barrier.wait();
                match ops.get(k).map(|s| s.as_str()) {
                    Some("connect") => {
                        let (_, s) = sink.as_ref().unwrap();
                        port.connect_sink(s);
                    }
                    Some("send") => {
                        let fut = port.send(val);
                        let mut fut = std::pin::pin!(fut);
                        block_on(fut.as_mut());
                    }
                    _ => {}
                }
                match ops.get(k).map(|s| s.as_str()) {
                    Some("connect") => {
                        let mut l = log.lock().unwrap();
                        l.events.push(json!({"ev": "ce", "c": name}));
                        l.sinks.push(sink.take().unwrap());
                    }
                    Some("send") => {
                        log.lock().unwrap().events.push(json!({"ev": "se", "c": name, "v": val}));
                    }
                    _ => {}
                }
                barrier.wait();
            }
        }));
    }
    drop(first);
    for h in hs {
        h.join().unwrap();
    }
    let mut l = log.lock().unwrap();
    // which sinks (by id, ascending) received each value
    let mut got: Vec<(u64, Vec<u64>)> = Vec::new();
    for (id, s) in l.sinks.iter_mut() {
        got.push((*id, s.by_ref().collect()));
    }
    got.sort();
    for e in l.events.iter_mut() {
        if e["ev"] == "se" {
            let v = e["v"].as_u64().unwrap();
            let res: Vec<u64> = got.iter().filter(|(_, vs)| vs.contains(&v)).map(|(id, _)| *id).collect();
            // a value delivered twice to one sink would be a duplicate delivery
            let dup = got.iter().any(|(_, vs)| vs.iter().filter(|x| **x == v).count() > 1);
            e["res"] = json!(res);
            e["dup"] = json!(dup);
        }
    }
    for e in l.events.iter() {
        writeln!(out, "{}", e).unwrap();
    }
}

pub fn conc_main(args: &[String]) {
    let inp: ConcInput =
        serde_json::from_reader(std::io::BufReader::new(std::fs::File::open(&args[0]).expect("input"))).expect("json");
    let mut out = std::io::BufWriter::new(std::fs::File::create(&args[1]).expect("output"));
    if inp.delay_point != 0 {
        nexosim::verif::install(Some(Arc::new(ConcDelay { point: inp.delay_point, us: inp.delay_us })));
    } else {
        nexosim::verif::install(None);
    }
    for p in inp.programs.iter() {
        for _ in 0..inp.repeat {
            conc_run(p, &mut out);
        }
    }
    nexosim::verif::install(None);
    out.flush().unwrap();
}
