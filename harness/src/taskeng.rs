//! Engine for Task.tla: handle-operation sequences on a real task (V1 facade), sequentially (replay of
//! TLC-generated histories) or from several real threads (start/end events for trace validation).

use std::future::Future;
use std::io::Write;
use std::pin::Pin;
use std::sync::atomic::{AtomicU64, AtomicUsize, Ordering};
use std::sync::{Arc, Barrier, Mutex};
use std::task::{Context, Poll, Waker};

use nexosim::verif::task::{queued, spawn_and_forget_out, spawn_out, take_runnable, VCancel, VPromiseOut, VRunnable, VStage};
use serde::Deserialize;
use serde_json::{json, Value};

#[derive(Deserialize, Clone)]
struct PollSpec {
    clone: bool,
    selfwake: bool,
    ret: String,
}

#[derive(Deserialize)]
struct Input {
    mode: String, // "seq" | "conc"
    script: Vec<PollSpec>,
    with_promise: bool,
    #[serde(default)]
    behaviours: Vec<Vec<String>>,
    #[serde(default)]
    programs: Vec<Vec<Vec<String>>>, // per run: per thread: list of ops
    #[serde(default)]
    repeat: usize,
}

#[derive(Default)]
struct Counters {
    fut_dropped: AtomicU64,
    out_dropped: AtomicU64,
    out_taken: AtomicU64,
    npolls: AtomicU64,
    concurrent: AtomicU64,
    inpoll: AtomicU64,
}

struct Output {
    c: Arc<Counters>,
}
impl Drop for Output {
    fn drop(&mut self) {
        self.c.out_dropped.fetch_add(1, Ordering::SeqCst);
    }
}

struct ScriptFuture {
    script: Vec<PollSpec>,
    c: Arc<Counters>,
    pool: Arc<Mutex<Vec<Waker>>>,
    _out: Option<Output>,
}
impl Drop for ScriptFuture {
    fn drop(&mut self) {
        self.c.fut_dropped.fetch_add(1, Ordering::SeqCst);
        // the output placeholder is not an output
        if let Some(o) = self._out.take() {
            std::mem::forget(o);
        }
    }
}
impl Future for ScriptFuture {
    type Output = u64;
    fn poll(self: Pin<&mut Self>, cx: &mut Context<'_>) -> Poll<u64> {
        let this = self.get_mut();
        if this.c.inpoll.fetch_add(1, Ordering::SeqCst) != 0 {
            this.c.concurrent.fetch_add(1, Ordering::SeqCst);
        }
        let k = this.c.npolls.fetch_add(1, Ordering::SeqCst) as usize;
        let spec = this.script[k.min(this.script.len() - 1)].clone();
        if spec.clone {
            this.pool.lock().unwrap().push(cx.waker().clone());
        }
        if spec.selfwake {
            cx.waker().wake_by_ref();
        }
        // widen the window in which other threads act during the poll
        std::thread::yield_now();
        this.c.inpoll.fetch_sub(1, Ordering::SeqCst);
        match spec.ret.as_str() {
            "ready" => Poll::Ready(OUT_ID.fetch_add(1, Ordering::SeqCst) as u64),
            "pending" => Poll::Pending,
            _ => panic!("scripted panic"),
        }
    }
}

static OUT_ID: AtomicUsize = AtomicUsize::new(1);
static NEXT_TAG: AtomicUsize = AtomicUsize::new(1);

/// The output of the task counts its drops (facade `spawn_out`): released exactly once means one counted drop, whether
/// the promise took it (and dropped it on the spot), a cancellation dropped it, or the last handle did.
struct World {
    tag: usize,
    c: Arc<Counters>,
    pool: Arc<Mutex<Vec<Waker>>>,
    token: Mutex<Option<VCancel>>,
    promise: Mutex<Option<VPromiseOut>>,
    out_drops: Arc<AtomicUsize>,
}

fn new_world(inp: &Input) -> World {
    let tag = NEXT_TAG.fetch_add(1, Ordering::SeqCst);
    let c = Arc::new(Counters::default());
    let pool = Arc::new(Mutex::new(Vec::new()));
    let fut = ScriptFuture { script: inp.script.clone(), c: c.clone(), pool: pool.clone(), _out: None };
    let out_drops = Arc::new(AtomicUsize::new(0));
    let (promise, token) = if inp.with_promise {
        let (p, t) = spawn_out(fut, tag, out_drops.clone());
        (Some(p), t)
    } else {
        (None, spawn_and_forget_out(fut, tag, out_drops.clone()))
    };
    World { tag, c, pool, token: Mutex::new(Some(token)), promise: Mutex::new(promise), out_drops }
}

enum Handle {
    Run(VRunnable),
    Waker(Waker),
    Token(VCancel),
    Promise(VPromiseOut),
}

/// Takes the handle the operation needs (None if it is not available).
fn take(w: &World, op: &str) -> Option<Handle> {
    match op {
        "run" | "drop_runnable" => take_runnable(w.tag).map(Handle::Run),
        "wake" | "wake_by_ref" | "clone_waker" | "drop_waker" => w.pool.lock().unwrap().pop().map(Handle::Waker),
        "cancel" | "drop_token" => w.token.lock().unwrap().take().map(Handle::Token),
        "poll_promise" | "drop_promise" => w.promise.lock().unwrap().take().map(Handle::Promise),
        _ => panic!("unknown op {}", op),
    }
}

fn perform(w: &World, op: &str, h: Handle) -> &'static str {
    match (op, h) {
        ("run", Handle::Run(r)) => {
            let _ = std::panic::catch_unwind(std::panic::AssertUnwindSafe(|| r.run()));
            "ran"
        }
        ("drop_runnable", Handle::Run(r)) => {
            drop(r);
            "ok"
        }
        ("wake", Handle::Waker(k)) => {
            k.wake();
            "ok"
        }
        ("wake_by_ref", Handle::Waker(k)) => {
            k.wake_by_ref();
            w.pool.lock().unwrap().push(k);
            "ok"
        }
        ("clone_waker", Handle::Waker(k)) => {
            let k2 = k.clone();
            let mut p = w.pool.lock().unwrap();
            p.push(k);
            p.push(k2);
            "ok"
        }
        ("drop_waker", Handle::Waker(k)) => {
            drop(k);
            "ok"
        }
        ("cancel", Handle::Token(t)) => {
            t.cancel();
            "ok"
        }
        ("drop_token", Handle::Token(t)) => {
            drop(t);
            "ok"
        }
        ("poll_promise", Handle::Promise(p)) => {
            let r = match p.poll() {
                VStage::Ready(_) => {
                    w.c.out_taken.fetch_add(1, Ordering::SeqCst);
                    "ready"
                }
                VStage::Pending => "pending",
                VStage::Cancelled => "cancelled",
            };
            *w.promise.lock().unwrap() = Some(p);
            r
        }
        ("drop_promise", Handle::Promise(p)) => {
            drop(p);
            "ok"
        }
        _ => panic!("handle mismatch"),
    }
}

fn obs(w: &World) -> Value {
    json!({"futDropped": w.c.fut_dropped.load(Ordering::SeqCst) > 0,
           "outTaken": w.c.out_taken.load(Ordering::SeqCst) > 0,
           "outDrops": w.out_drops.load(Ordering::SeqCst),
           "npolls": w.c.npolls.load(Ordering::SeqCst), "runq": queued(w.tag),
           "futDrops": w.c.fut_dropped.load(Ordering::SeqCst), "concurrentPolls": w.c.concurrent.load(Ordering::SeqCst)})
}

fn cleanup(w: World) {
    // release whatever is left so that the next run starts clean
    while let Some(r) = take_runnable(w.tag) {
        drop(r);
    }
    w.pool.lock().unwrap().clear();
    drop(w.token.lock().unwrap().take());
    drop(w.promise.lock().unwrap().take());
    while let Some(r) = take_runnable(w.tag) {
        drop(r);
    }
}

pub fn main(args: &[String]) {
    let inp: Input =
        serde_json::from_reader(std::io::BufReader::new(std::fs::File::open(&args[0]).expect("input"))).expect("json");
    let mut out = std::io::BufWriter::new(std::fs::File::create(&args[1]).expect("output"));
    std::panic::set_hook(Box::new(|_| {}));
    if inp.mode == "seq" {
        for b in inp.behaviours.iter() {
            let w = new_world(&inp);
            let mut rec = Vec::new();
            for op in b.iter() {
                let pre = obs(&w);
                let res = match take(&w, op) {
                    Some(h) => perform(&w, op, h),
                    None => "unavailable",
                };
                rec.push(json!({"op": op, "res": res, "pre": pre}));
            }
            let fin = obs(&w);
            writeln!(out, "{}", json!({"ops": rec, "final": fin})).unwrap();
            cleanup(w);
        }
    } else {
        let repeat = inp.repeat.max(1);
        for prog in inp.programs.iter() {
            for _ in 0..repeat {
                let w = Arc::new(new_world(&inp));
                let log: Arc<Mutex<Vec<Value>>> = Arc::new(Mutex::new(vec![json!({"ev": "reset"})]));
                let barrier = Arc::new(Barrier::new(prog.len()));
                let mut hs = Vec::new();
                for (ti, ops) in prog.iter().enumerate() {
                    let w = w.clone();
                    let log = log.clone();
                    let barrier = barrier.clone();
                    let ops = ops.clone();
                    let name = format!("t{}", ti + 1);
                    hs.push(std::thread::spawn(move || {
                        barrier.wait();
                        for op in ops.iter() {
                            // the handle is taken and the start is logged in one critical section
                            let h = {
                                let mut lg = log.lock().unwrap();
                                match take(&w, op) {
                                    Some(h) => {
                                        lg.push(json!({"ev": "s", "t": name, "op": op}));
                                        Some(h)
                                    }
                                    None => None,
                                }
                            };
                            if let Some(h) = h {
                                let res = perform(&w, op, h);
                                log.lock().unwrap().push(json!({"ev": "e", "t": name, "res": res}));
                            }
                        }
                    }));
                }
                for h in hs {
                    let _ = h.join();
                }
                let fin = obs(&w);
                let mut lg = log.lock().unwrap();
                lg.push(json!({"ev": "final", "obs": fin}));
                for e in lg.iter() {
                    writeln!(out, "{}", e).unwrap();
                }
                drop(lg);
                if let Ok(w) = Arc::try_unwrap(w) {
                    cleanup(w);
                }
            }
        }
    }
    out.flush().unwrap();
}
