//! Engine for MpscQueue.tla: sequential replay of operation histories on the real mailbox queue and
//! recording of concurrent executions (real producer threads and a consumer thread) as start/end events.

use std::io::Write;
use std::sync::{Arc, Barrier, Mutex};

use nexosim::verif::queue::{queue, VConsumer, VPop, VProducer, VPush};
use serde::Deserialize;
use serde_json::{json, Value};

#[derive(Deserialize, Clone)]
struct OpRec {
    t: String,
    op: String,
    /// name of the producer whose push was suspended (in flight) while this operation ran, or ""
    #[serde(default)]
    inn: String,
}

#[derive(Deserialize)]
struct Input {
    mode: String, // "seq" | "conc"
    capacity: usize,
    producers: Vec<String>,
    /// seq: histories (lists of {t, op}); conc: programs: each entry maps thread -> list of ops
    #[serde(default)]
    behaviours: Vec<Vec<OpRec>>,
    #[serde(default)]
    programs: Vec<std::collections::HashMap<String, Vec<String>>>,
    #[serde(default)]
    repeat: usize,
}

fn ret(tag: &str, a: &str, n: u64) -> Value {
    json!([tag, a, n])
}

struct Ctx {
    producers: Vec<String>,
    counters: Vec<u64>,
}

fn do_prod(p: &VProducer, pid: usize, ctx: &mut Ctx, op: &str) -> Value {
    match op {
        "push" => {
            ctx.counters[pid] += 1;
            let v = (pid as u64 + 1) * 1_000_000 + ctx.counters[pid];
            match p.push(v) {
                VPush::Ok => ret("ok", "", 0),
                VPush::Full => ret("full", "", 0),
                VPush::Closed => ret("closed", "", 0),
            }
        }
        "close" => {
            p.close();
            ret("ok", "", 0)
        }
        "len" => ret("len", "", p.len() as u64),
        other => panic!("unknown producer op {}", other),
    }
}

fn do_cons(c: &mut VConsumer, held: &mut bool, producers: &[String], op: &str) -> Value {
    match op {
        "pop" => match c.pop() {
            VPop::Value(v) => {
                *held = true;
                let pid = (v / 1_000_000) as usize - 1;
                ret("value", &producers[pid], v % 1_000_000)
            }
            VPop::Empty => ret("empty", "", 0),
            VPop::Closed => ret("closed", "", 0),
        },
        "release" => {
            let r = if *held { "ok" } else { "none" };
            c.release();
            *held = false;
            ret(r, "", 0)
        }
        "close" => {
            c.close();
            ret("ok", "", 0)
        }
        "len" => ret("len", "", c.len() as u64),
        other => panic!("unknown consumer op {}", other),
    }
}

pub fn main(args: &[String]) {
    let inp: Input =
        serde_json::from_reader(std::io::BufReader::new(std::fs::File::open(&args[0]).expect("input"))).expect("json");
    let mut out = std::io::BufWriter::new(std::fs::File::create(&args[1]).expect("output"));
    if inp.mode == "seq" {
        for b in inp.behaviours.iter() {
            let r = std::panic::catch_unwind(|| {
                let (p, mut c) = queue(inp.capacity);
                let mut ctx = Ctx { producers: inp.producers.clone(), counters: vec![0; inp.producers.len()] };
                let mut held = false;
                let mut res: Vec<Value> = Vec::new();
                let producers = ctx.producers.clone();
                let mut i = 0;
                while i < b.len() {
                    let o = &b[i];
                    if !o.inn.is_empty() {
                        // operations i..j ran while the push of `o.inn` (entry j of the history, completed
                        // after them) was in flight: they are executed from inside its message closure
                        let outer = o.inn.clone();
                        let mut j = i;
                        while j < b.len() && b[j].inn == outer {
                            j += 1;
                        }
                        assert!(j < b.len() && b[j].t == outer && b[j].op == "push", "malformed nested history");
                        let opid = producers.iter().position(|x| *x == outer).unwrap();
                        ctx.counters[opid] += 1;
                        let v = (opid as u64 + 1) * 1_000_000 + ctx.counters[opid];
                        let mut inner_res: Vec<Value> = Vec::new();
                        let r = {
                            let ctx_ref = &mut ctx;
                            let c_ref = &mut c;
                            let held_ref = &mut held;
                            let inner = &b[i..j];
                            let pclone = p.clone();
                            let ir = &mut inner_res;
                            let producers = producers.clone();
                            p.push_with(v, move || {
                                for io in inner.iter() {
                                    if io.t == "cons" {
                                        ir.push(do_cons(c_ref, held_ref, &producers, &io.op));
                                    } else {
                                        let pid = producers.iter().position(|x| *x == io.t).unwrap();
                                        ir.push(do_prod(&pclone, pid, ctx_ref, &io.op));
                                    }
                                }
                            })
                        };
                        res.extend(inner_res);
                        res.push(match r {
                            VPush::Ok => ret("ok", "", 0),
                            VPush::Full => ret("full", "", 0),
                            VPush::Closed => ret("closed", "", 0),
                        });
                        i = j + 1;
                        continue;
                    }
                    if o.t == "cons" {
                        res.push(do_cons(&mut c, &mut held, &producers, &o.op));
                    } else {
                        let pid = producers.iter().position(|x| *x == o.t).unwrap();
                        res.push(do_prod(&p, pid, &mut ctx, &o.op));
                    }
                    i += 1;
                }
                res
            });
            match r {
                Ok(v) => writeln!(out, "{}", json!(v)).unwrap(),
                Err(_) => writeln!(out, "{}", json!([["PANICKED", "", 0]])).unwrap(),
            }
        }
    } else {
        let repeat = inp.repeat.max(1);
        for prog in inp.programs.iter() {
            for _ in 0..repeat {
                let log: Arc<Mutex<Vec<Value>>> = Arc::new(Mutex::new(vec![json!({"ev": "reset"})]));
                let (p, mut c) = queue(inp.capacity);
                let nthreads = inp.producers.iter().filter(|x| prog.contains_key(*x)).count()
                    + if prog.contains_key("cons") { 1 } else { 0 };
                let barrier = Arc::new(Barrier::new(nthreads));
                let mut handles = Vec::new();
                for (pid, name) in inp.producers.iter().enumerate() {
                    if let Some(ops) = prog.get(name) {
                        let p = p.clone();
                        let ops = ops.clone();
                        let log = log.clone();
                        let barrier = barrier.clone();
                        let name = name.clone();
                        let producers = inp.producers.clone();
                        handles.push(std::thread::spawn(move || {
                            let mut ctx = Ctx { producers, counters: vec![0; 8] };
                            barrier.wait();
                            for op in ops.iter() {
                                log.lock().unwrap().push(json!({"ev": "s", "t": name, "op": op}));
                                let r = do_prod(&p, pid, &mut ctx, op);
                                log.lock().unwrap().push(json!({"ev": "e", "t": name, "ret": r}));
                            }
                        }));
                    }
                }
                // The consumer handle (and the message it may still borrow) outlives all threads: dropping
                // it would release the borrowed slot, which is not an operation of the specification.
                let mut cons_handle = None;
                if let Some(ops) = prog.get("cons") {
                    let ops = ops.clone();
                    let log = log.clone();
                    let barrier = barrier.clone();
                    let producers = inp.producers.clone();
                    cons_handle = Some(std::thread::spawn(move || {
                        let mut held = false;
                        barrier.wait();
                        for op in ops.iter() {
                            log.lock().unwrap().push(json!({"ev": "s", "t": "cons", "op": op}));
                            let r = do_cons(&mut c, &mut held, &producers, op);
                            log.lock().unwrap().push(json!({"ev": "e", "t": "cons", "ret": r}));
                        }
                        c
                    }));
                }
                for h in handles {
                    let _ = h.join();
                }
                let _kept = cons_handle.map(|h| h.join());
                for e in log.lock().unwrap().iter() {
                    writeln!(out, "{}", e).unwrap();
                }
            }
        }
    }
    out.flush().unwrap();
}
