//! Engine for Pool.tla: scripted futures (the same scripts as the TLC instances) are spawned and run on the real
//! multi-threaded executor through the `verif::pool` facade. Every hook point of the pool protocol, every poll
//! begin/end and every effect is logged under one mutex as a *marker*: the shared-memory steps in between are not
//! logged and are inferred by TLC (Pool_Trace.tla).  A second mode runs large wake-up bursts (local-queue overflow,
//! injector buckets) and reports per run what the executor returned and how many tasks were polled.

use std::cell::Cell;
use std::collections::{BTreeMap, HashMap};
use std::future::Future;
use std::io::Write;
use std::pin::Pin;
use std::sync::atomic::{AtomicU64, Ordering};
use std::sync::{Arc, Mutex};
use std::task::{Context, Poll, Waker};
use std::time::Duration;

use nexosim::verif::pool::{msg_delta, VPool, VRunResult};
use nexosim::verif::{self, Hooks};
use serde::Deserialize;
use serde_json::{json, Value};

#[derive(Deserialize, Clone)]
struct PollDef {
    eff: Vec<(String, i64)>,
    ready: bool,
}

#[derive(Deserialize)]
struct Big {
    leaves: u64,
    rounds: u64,
}

/// Several independent rings of tasks: in each, a token hops from task to task, every hop waking the next ring task and
/// a leaf (two wake-ups per poll on several workers at once: LIFO slot, local queue, sibling activation, stealing).
#[derive(Deserialize)]
struct Rings {
    rings: u64,
    len: u64,
    hops: u64,
    rounds: u64,
}

#[derive(Deserialize)]
struct Input {
    nw: usize,
    #[serde(default)]
    scripts: BTreeMap<String, Vec<PollDef>>,
    #[serde(default)]
    runs: Vec<Vec<u64>>,
    #[serde(default)]
    repeat: usize,
    #[serde(default)]
    delay_points: Vec<u32>,
    #[serde(default)]
    delay_us: u64,
    #[serde(default)]
    drop_after: bool,
    #[serde(default)]
    big: Option<Big>,
    #[serde(default)]
    rings: Option<Rings>,
}

thread_local! { static WORKER: Cell<i64> = const { Cell::new(-1) }; }

struct Shared {
    log: Mutex<Vec<Value>>,
    quiet: bool,
    ids: Mutex<HashMap<usize, u64>>,
    next_spawn: Mutex<Option<u64>>,
    wakers: Mutex<HashMap<u64, Waker>>,
    delay_points: Vec<u32>,
    delay_us: u64,
    nth: AtomicU64,
    progress: AtomicU64,
    polled: AtomicU64,
}

impl Shared {
    fn log(&self, v: Value) {
        if !self.quiet {
            self.log.lock().unwrap().push(v);
        }
    }
}

struct PoolHooks(Arc<Shared>);

impl Hooks for PoolHooks {
    fn spawned(&self, task: usize) {
        if let Some(t) = self.0.next_spawn.lock().unwrap().take() {
            self.0.ids.lock().unwrap().insert(task, t);
        }
    }
    fn point(&self, id: u32, a: usize, b: usize) {
        let s = &self.0;
        match id {
            20..=29 | 35 | 36 => {
                WORKER.with(|w| w.set(a as i64));
                if !s.quiet {
                    let bb: i64 = match id {
                        27 | 36 => s.ids.lock().unwrap().get(&b).copied().unwrap_or(0) as i64,
                        26 => b as isize as i64,
                        _ => b as i64,
                    };
                    s.log(json!({"ev": "pt", "p": id, "w": a, "b": bb}));
                }
            }
            30 | 31 => s.log(json!({"ev": "mpt", "p": id})),
            _ => return,
        }
        if s.delay_us > 0 && s.delay_points.contains(&id) {
            // one visit in three is stretched so that the other threads get ahead
            if s.nth.fetch_add(1, Ordering::Relaxed) % 3 == 0 {
                std::thread::sleep(Duration::from_micros(s.delay_us));
            }
        }
    }
}

struct TaskFut {
    t: u64,
    polls: Arc<Vec<PollDef>>,
    k: usize,
    sh: Arc<Shared>,
}

impl Future for TaskFut {
    type Output = ();
    fn poll(mut self: Pin<&mut Self>, cx: &mut Context<'_>) -> Poll<()> {
        self.k += 1;
        let (t, k) = (self.t, self.k);
        let sh = self.sh.clone();
        sh.wakers.lock().unwrap().insert(t, cx.waker().clone());
        let w = WORKER.with(|w| w.get());
        sh.log(json!({"ev": "pb", "t": t, "k": k, "w": w}));
        let def = self.polls.get(k - 1).cloned().unwrap_or(PollDef { eff: Vec::new(), ready: false });
        for (i, (kind, arg)) in def.eff.iter().enumerate() {
            sh.log(json!({"ev": "eb", "t": t, "i": i + 1, "w": w}));
            match kind.as_str() {
                "wake" => {
                    let wk = sh.wakers.lock().unwrap().get(&(*arg as u64)).cloned();
                    if let Some(wk) = wk {
                        wk.wake_by_ref();
                    }
                }
                "msg" => msg_delta(*arg as isize),
                "panic" => panic!("boom"),
                _ => unreachable!(),
            }
        }
        sh.log(json!({"ev": "pe", "t": t, "k": k, "w": w}));
        if def.ready {
            Poll::Ready(())
        } else {
            Poll::Pending
        }
    }
}

fn result_json(k: usize, r: Result<VRunResult, ()>) -> (Value, bool) {
    match r {
        Ok(VRunResult::Ok) => (json!({"ev": "ret", "k": k, "r": "ok", "n": 0}), true),
        Ok(VRunResult::Unprocessed(n)) => (json!({"ev": "ret", "k": k, "r": "unprocessed", "n": n}), false),
        Ok(VRunResult::Timeout) => (json!({"ev": "ret", "k": k, "r": "timeout", "n": 0}), false),
        Ok(VRunResult::Panic(_)) => (json!({"ev": "ret", "k": k, "r": "panic", "n": 0}), false),
        Err(()) => (json!({"ev": "ret", "k": k, "r": "negative", "n": 0}), false),
    }
}

/// A leaf of the burst mode: polled once per wake-up; each poll receives one message.
struct Leaf {
    t: u64,
    first: bool,
    sh: Arc<Shared>,
}
impl Future for Leaf {
    type Output = ();
    fn poll(mut self: Pin<&mut Self>, cx: &mut Context<'_>) -> Poll<()> {
        if self.first {
            self.first = false;
            self.sh.wakers.lock().unwrap().insert(self.t, cx.waker().clone());
        } else {
            msg_delta(-1);
            self.sh.polled.fetch_add(1, Ordering::Relaxed);
        }
        Poll::Pending
    }
}

/// A task of a ring (or its leaf, `next == 0`): polled once per wake-up; while hops are left it wakes the next task of
/// the ring and the ring's leaf.
struct RingTask {
    id: u64,
    next: u64,
    leaf: u64,
    first: bool,
    hops: Arc<std::sync::atomic::AtomicI64>,
    sh: Arc<Shared>,
}
impl Future for RingTask {
    type Output = ();
    fn poll(mut self: Pin<&mut Self>, cx: &mut Context<'_>) -> Poll<()> {
        if self.first {
            self.first = false;
            self.sh.wakers.lock().unwrap().insert(self.id, cx.waker().clone());
            return Poll::Pending;
        }
        self.sh.polled.fetch_add(1, Ordering::Relaxed);
        if self.next != 0 && self.hops.fetch_sub(1, Ordering::Relaxed) > 0 {
            let (a, b) = {
                let m = self.sh.wakers.lock().unwrap();
                (m.get(&self.next).cloned(), m.get(&self.leaf).cloned())
            };
            if let Some(w) = a {
                w.wake_by_ref();
            }
            if let Some(w) = b {
                w.wake_by_ref();
            }
        }
        Poll::Pending
    }
}

/// Wakes the first task of every ring.
struct RingKicker {
    heads: Vec<u64>,
    sh: Arc<Shared>,
}
impl Future for RingKicker {
    type Output = ();
    fn poll(self: Pin<&mut Self>, _cx: &mut Context<'_>) -> Poll<()> {
        let wakers: Vec<Waker> = {
            let m = self.sh.wakers.lock().unwrap();
            self.heads.iter().filter_map(|t| m.get(t).cloned()).collect()
        };
        for w in wakers {
            w.wake_by_ref();
        }
        Poll::Ready(())
    }
}

/// Wakes every leaf from one poll (more than the local queue can hold) and accounts one message sent to each.
struct Kicker {
    n: u64,
    sh: Arc<Shared>,
}
impl Future for Kicker {
    type Output = ();
    fn poll(self: Pin<&mut Self>, _cx: &mut Context<'_>) -> Poll<()> {
        let wakers: Vec<Waker> = {
            let m = self.sh.wakers.lock().unwrap();
            (1..=self.n).filter_map(|t| m.get(&t).cloned()).collect()
        };
        for w in wakers {
            msg_delta(1);
            w.wake_by_ref();
        }
        Poll::Ready(())
    }
}

pub fn main(args: &[String]) {
    let inp: Input =
        serde_json::from_reader(std::io::BufReader::new(std::fs::File::open(&args[0]).expect("input"))).expect("json");
    let out = Arc::new(Mutex::new(std::io::BufWriter::new(std::fs::File::create(&args[1]).expect("output"))));
    std::panic::set_hook(Box::new(|_| {}));
    let sh = Arc::new(Shared {
        log: Mutex::new(Vec::new()),
        quiet: inp.big.is_some() || inp.rings.is_some(),
        ids: Mutex::new(HashMap::new()),
        next_spawn: Mutex::new(None),
        wakers: Mutex::new(HashMap::new()),
        delay_points: inp.delay_points.clone(),
        delay_us: inp.delay_us,
        nth: AtomicU64::new(0),
        progress: AtomicU64::new(0),
        polled: AtomicU64::new(0),
    });
    verif::install(Some(Arc::new(PoolHooks(sh.clone()))));
    // watchdog: a call that does not return within 20 s is reported as a hang together with the log so far
    {
        let sh = sh.clone();
        let out = out.clone();
        std::thread::spawn(move || {
            let mut last = u64::MAX;
            let mut since = std::time::Instant::now();
            loop {
                std::thread::sleep(Duration::from_millis(200));
                let p = sh.progress.load(Ordering::Relaxed);
                if p != last {
                    last = p;
                    since = std::time::Instant::now();
                } else if since.elapsed() > Duration::from_secs(20) {
                    let mut o = out.lock().unwrap();
                    if let Ok(l) = sh.log.try_lock() {
                        for v in l.iter() {
                            writeln!(o, "{}", v).unwrap();
                        }
                    }
                    writeln!(o, "{}", json!({"ev": "hang"})).unwrap();
                    o.flush().unwrap();
                    std::process::exit(3);
                }
            }
        });
    }
    if let Some(rg) = &inp.rings {
        let mut pool = VPool::new(inp.nw);
        let mut hops = Vec::new();
        let mut heads = Vec::new();
        for r in 0..rg.rings {
            let base = r * (rg.len + 1);
            let h = Arc::new(std::sync::atomic::AtomicI64::new(0));
            hops.push(h.clone());
            heads.push(base + 1);
            for i in 0..rg.len {
                pool.spawn(RingTask {
                    id: base + 1 + i,
                    next: base + 1 + (i + 1) % rg.len,
                    leaf: base + rg.len + 1,
                    first: true,
                    hops: h.clone(),
                    sh: sh.clone(),
                });
            }
            pool.spawn(RingTask { id: base + rg.len + 1, next: 0, leaf: 0, first: true, hops: h.clone(), sh: sh.clone() });
        }
        let r0 = std::panic::catch_unwind(std::panic::AssertUnwindSafe(|| pool.run(Duration::ZERO))).map_err(|_| ());
        let (mut v, mut ok) = result_json(0, r0);
        v["left"] = json!(0);
        writeln!(out.lock().unwrap(), "{}", v).unwrap();
        let mut k = 0;
        while ok && k < rg.rounds {
            k += 1;
            sh.progress.fetch_add(1, Ordering::Relaxed);
            for h in &hops {
                h.store(rg.hops as i64, Ordering::Relaxed);
            }
            pool.spawn(RingKicker { heads: heads.clone(), sh: sh.clone() });
            let r = std::panic::catch_unwind(std::panic::AssertUnwindSafe(|| pool.run(Duration::ZERO))).map_err(|_| ());
            let (mut v, o) = result_json(k as usize, r);
            ok = o;
            // every ring must have used up its hops: the token's next task is always woken, hence always polled
            let left: i64 = hops.iter().map(|h| h.load(Ordering::Relaxed).max(0)).sum();
            v["left"] = json!(left);
            if !ok || left != 0 || k == rg.rounds {
                writeln!(out.lock().unwrap(), "{}", v).unwrap();
            }
            if left != 0 {
                break;
            }
        }
        sh.wakers.lock().unwrap().clear();
        drop(pool);
        writeln!(out.lock().unwrap(), "{}", json!({"ev": "end", "rounds": k})).unwrap();
        out.lock().unwrap().flush().unwrap();
        return;
    }
    if let Some(big) = &inp.big {
        let mut pool = VPool::new(inp.nw);
        for t in 1..=big.leaves {
            pool.spawn(Leaf { t, first: true, sh: sh.clone() });
        }
        let r0 = std::panic::catch_unwind(std::panic::AssertUnwindSafe(|| pool.run(Duration::ZERO))).map_err(|_| ());
        let (mut v, mut ok) = result_json(0, r0);
        v["polled"] = json!(0);
        v["expected"] = json!(0);
        writeln!(out.lock().unwrap(), "{}", v).unwrap();
        let mut k = 0;
        while ok && k < big.rounds {
            k += 1;
            sh.progress.fetch_add(1, Ordering::Relaxed);
            sh.polled.store(0, Ordering::Relaxed);
            pool.spawn(Kicker { n: big.leaves, sh: sh.clone() });
            let r = std::panic::catch_unwind(std::panic::AssertUnwindSafe(|| pool.run(Duration::ZERO))).map_err(|_| ());
            let (mut v, o) = result_json(k as usize, r);
            ok = o;
            v["polled"] = json!(sh.polled.load(Ordering::Relaxed));
            v["expected"] = json!(big.leaves);
            if !ok || v["polled"] != v["expected"] || k == big.rounds {
                writeln!(out.lock().unwrap(), "{}", v).unwrap();
            }
            if v["polled"] != v["expected"] {
                break;
            }
        }
        sh.wakers.lock().unwrap().clear();
        drop(pool);
        writeln!(out.lock().unwrap(), "{}", json!({"ev": "end", "rounds": k})).unwrap();
        out.lock().unwrap().flush().unwrap();
        return;
    }
    let scripts: BTreeMap<u64, Arc<Vec<PollDef>>> =
        inp.scripts.iter().map(|(k, v)| (k.parse().unwrap(), Arc::new(v.clone()))).collect();
    for rep in 0..inp.repeat {
        sh.progress.fetch_add(1, Ordering::Relaxed);
        sh.wakers.lock().unwrap().clear();
        sh.ids.lock().unwrap().clear();
        sh.log(json!({"ev": "reset", "rep": rep, "nw": inp.nw}));
        let mut pool = VPool::new(inp.nw);
        sh.log(json!({"ev": "new"}));
        for (k, run) in inp.runs.iter().enumerate() {
            for &t in run {
                *sh.next_spawn.lock().unwrap() = Some(t);
                pool.spawn(TaskFut { t, polls: scripts[&t].clone(), k: 0, sh: sh.clone() });
                sh.log(json!({"ev": "spawn", "t": t}));
            }
            sh.log(json!({"ev": "run", "k": k + 1}));
            sh.progress.fetch_add(1, Ordering::Relaxed);
            let r = std::panic::catch_unwind(std::panic::AssertUnwindSafe(|| pool.run(Duration::ZERO))).map_err(|_| ());
            let (v, ok) = result_json(k + 1, r);
            sh.log(v);
            if !ok {
                break;
            }
        }
        sh.wakers.lock().unwrap().clear();
        sh.progress.fetch_add(1, Ordering::Relaxed);
        if inp.drop_after {
            sh.log(json!({"ev": "drop"}));
        }
        drop(pool);
        if inp.drop_after {
            sh.log(json!({"ev": "dropped"}));
        }
        let mut o = out.lock().unwrap();
        for v in sh.log.lock().unwrap().drain(..) {
            writeln!(o, "{}", v).unwrap();
        }
        o.flush().unwrap();
    }
}
