//! Run-time engine for C15: reader threads read `Scheduler::time()` while the main thread advances the
//! simulation through the times (k s, k ns); a hook delays the writer between the two word stores (and
//! the readers between the two word loads) to widen the window in which a torn read could happen.

use std::io::Write;
use std::sync::atomic::{AtomicBool, AtomicU64, Ordering};
use std::sync::Arc;
use std::time::Duration;

use nexosim::model::Model;
use nexosim::simulation::{Mailbox, SimInit};
use nexosim::time::MonotonicTime;
use nexosim::verif::{self, Hooks};
use serde::Deserialize;
use serde_json::json;

#[derive(Deserialize)]
struct Input {
    updates: u64,
    readers: usize,
    runs: usize,
    writer_delay_us: u64,
    reader_delay_us: u64,
    #[serde(default)]
    use_step_until: bool,
}

struct Nop;
impl Nop {
    fn ping(&mut self) {}
}
impl Model for Nop {}

struct DelayHooks {
    w: u64,
    r: u64,
    n: AtomicU64,
}
impl Hooks for DelayHooks {
    fn point(&self, id: u32, _a: usize, _b: usize) {
        if id == 50 && self.w > 0 {
            std::thread::sleep(Duration::from_micros(self.w));
        } else if id == 53 && self.r > 0 {
            // one read in four is stretched
            if self.n.fetch_add(1, Ordering::Relaxed) % 4 == 0 {
                std::thread::sleep(Duration::from_micros(self.r));
            }
        }
    }
}

pub fn main(args: &[String]) {
    let inp: Input =
        serde_json::from_reader(std::io::BufReader::new(std::fs::File::open(&args[0]).expect("input"))).expect("json");
    let mut out = std::io::BufWriter::new(std::fs::File::create(&args[1]).expect("output"));
    verif::install(Some(Arc::new(DelayHooks { w: inp.writer_delay_us, r: inp.reader_delay_us, n: AtomicU64::new(0) })));
    for _ in 0..inp.runs {
        writeln!(out, "{}", json!({"ev": "reset"})).unwrap();
        let mbox = Mailbox::new();
        let addr = mbox.address();
        let (mut simu, scheduler) =
            SimInit::with_num_threads(1).add_model(Nop, mbox, "nop").init(MonotonicTime::EPOCH).unwrap();
        for k in 1..=inp.updates {
            scheduler
                .schedule_event(MonotonicTime::new(k as i64, k as u32).unwrap(), Nop::ping, (), &addr)
                .unwrap();
        }
        let started = Arc::new(AtomicU64::new(0));
        let done = Arc::new(AtomicU64::new(0));
        let stop = Arc::new(AtomicBool::new(false));
        let mut hs = Vec::new();
        for r in 0..inp.readers {
            let sched = scheduler.clone();
            let started = started.clone();
            let done = done.clone();
            let stop = stop.clone();
            hs.push(std::thread::spawn(move || {
                let mut recs = Vec::new();
                while !stop.load(Ordering::Acquire) && recs.len() < 4000 {
                    let lo = done.load(Ordering::Acquire);
                    let t = sched.time();
                    let hi = started.load(Ordering::Acquire);
                    recs.push(json!({"ev": "read", "r": format!("r{}", r + 1), "lo": lo, "a": t.as_secs(),
                                     "b": t.subsec_nanos(), "hi": hi}));
                }
                recs
            }));
        }
        for k in 1..=inp.updates {
            started.store(k, Ordering::Release);
            if inp.use_step_until && k % 2 == 0 {
                simu.step_until(MonotonicTime::new(k as i64, k as u32).unwrap()).unwrap();
            } else {
                simu.step().unwrap();
            }
            done.store(k, Ordering::Release);
        }
        stop.store(true, Ordering::Release);
        for h in hs {
            for e in h.join().unwrap() {
                writeln!(out, "{}", e).unwrap();
            }
        }
    }
    verif::install(None);
    out.flush().unwrap();
}
