//! Engine for the Bench binding (specs/Bench.tla): builds a bench of scripted models from JSON,
//! runs `SimInit::init` and a list of `process_event`/`process_query` commands on the real crate and
//! records an ndjson trace whose events are actions of the specification.
//!
//! On the single-threaded executor the run is steered through the verification hooks: the pick
//! hook chooses which runnable task runs next and every channel send is a yield point, so that a
//! *choice sequence* determines the schedule completely.  The engine enumerates choice sequences
//! depth-first (all schedules of small benches) or samples them with a seeded generator.  On the
//! multi-threaded executor the runs are free (optionally perturbed by delays at hook points).

use std::any::Any;
use std::collections::HashMap;
use std::io::Write;
use std::panic::{self, AssertUnwindSafe};
use std::sync::atomic::{AtomicUsize, Ordering};
use std::sync::{Arc, Mutex};
use std::task::Waker;
use std::time::{Duration, Instant};

use nexosim::model::{BuildContext, Context, InitializedModel, Model, ProtoModel};
use nexosim::ports::{EventBuffer, EventSource, Output, QuerySource, Requestor};
use nexosim::simulation::{Address, ExecutionError, Mailbox, SimInit, Simulation};
use nexosim::time::MonotonicTime;
use nexosim::verif::{self, Hooks};
use serde::Deserialize;
use serde_json::{json, Value};

#[derive(Deserialize, Clone, Debug)]
pub struct BOp {
    op: String,
    port: usize,
    prog: i64,
    /// for a query: number of replies read from the reply iterator before it is dropped (-1: all of them)
    #[serde(default = "minus_one")]
    take: i64,
}

fn minus_one() -> i64 {
    -1
}

#[derive(Deserialize, Clone, Debug)]
pub struct Conn {
    tgt: String,
    mode: String,
    accept: Vec<i64>,
    delta: i64,
}

#[derive(Deserialize, Clone, Debug)]
pub struct PortDef {
    kind: String,
    conns: Vec<Conn>,
}

#[derive(Deserialize, Clone, Debug)]
pub struct Proc {
    kind: String,
    target: String,
    prog: i64,
}

#[derive(Deserialize, Clone, Debug)]
pub struct BenchDef {
    models: Vec<String>,
    cap: HashMap<String, usize>,
    prog: Vec<Vec<BOp>>,
    ports: HashMap<String, Vec<PortDef>>,
    initprog: HashMap<String, i64>,
    sinks: Vec<String>,
    procs: Vec<Proc>,
    /// event / query sources of the driver ("S1", "S2", ... in this order)
    #[serde(default)]
    sources: Vec<PortDef>,
}

#[derive(Deserialize)]
pub struct Input {
    bench: BenchDef,
    /// "dfs": enumerate schedules depth-first; "random": seeded random schedules; "free": no control
    mode: String,
    threads: usize,
    max_runs: usize,
    #[serde(default)]
    seed: u64,
    #[serde(default)]
    yields: bool,
    #[serde(default)]
    first_id: u64,
    /// free runs only: (point id, delay in microseconds) injected at hook points, per run, seeded
    #[serde(default)]
    delay_us: u64,
    /// free runs only: if non-zero, only this hook point is delayed (every time it is reached by the
    /// worker `sweep_worker`, or by any thread if that is negative): the delay sweep of DESIGN.md
    #[serde(default)]
    sweep_point: u32,
    #[serde(default)]
    sweep_worker: i64,
}

#[derive(Clone, Debug)]
pub struct Payload {
    prog: i64,
    s: String,
    n: u64,
    c: u32,
}

struct Shared {
    log: Mutex<Vec<Value>>,
    prog: Vec<Vec<BOp>>,
    index: HashMap<String, usize>,
    busy: Mutex<HashMap<String, bool>>,
}

fn ev(sh: &Shared, v: Value) {
    sh.log.lock().unwrap().push(v);
}

enum Port {
    Out(Output<Payload>),
    Req(Requestor<Payload, i64>),
}

pub struct BModel {
    name: String,
    ports: Vec<Port>,
    n: u64,
    initprog: i64,
    shared: Arc<Shared>,
}

impl BModel {
    pub async fn handle(&mut self, p: Payload, cx: &mut Context<Self>) {
        self.run(p, "ev", cx).await;
    }

    pub async fn reply(&mut self, p: Payload, cx: &mut Context<Self>) -> i64 {
        let prog = p.prog;
        self.run(p, "qry", cx).await;
        1000 * (self.shared.index[&self.name] as i64 + 1) + prog
    }

    async fn run(&mut self, p: Payload, kind: &str, cx: &mut Context<Self>) {
        let sh = self.shared.clone();
        {
            // C05: one computation at a time per model
            let mut busy = sh.busy.lock().unwrap();
            let was = busy.insert(self.name.clone(), true).unwrap_or(false);
            ev(&sh, json!({"ev": "hb", "m": self.name, "name": cx.name(), "prog": p.prog, "kind": kind,
                           "id": {"s": p.s, "n": p.n, "c": p.c}, "overlap": was}));
        }
        self.exec(p.prog).await;
        {
            let mut busy = sh.busy.lock().unwrap();
            busy.insert(self.name.clone(), false);
            ev(&sh, json!({"ev": "he", "m": self.name}));
        }
    }

    async fn exec(&mut self, prog: i64) {
        if prog == 0 {
            return;
        }
        let sh = self.shared.clone();
        let ops = sh.prog[(prog - 1) as usize].clone();
        for op in ops.iter() {
            match op.op.as_str() {
                "nop" => ev(&sh, json!({"ev": "ss", "m": self.name, "n": self.n, "op": "nop", "port": 0, "prog": 0})),
                "send" => {
                    self.n += 1;
                    let n = self.n;
                    ev(&sh, json!({"ev": "ss", "m": self.name, "n": n, "op": "send", "port": op.port, "prog": op.prog}));
                    let payload = Payload { prog: op.prog, s: self.name.clone(), n, c: 0 };
                    match &mut self.ports[op.port - 1] {
                        Port::Out(o) => o.send(payload).await,
                        Port::Req(_) => panic!("harness: send on a requestor port"),
                    }
                    ev(&sh, json!({"ev": "sd", "m": self.name, "n": n, "replies": []}));
                }
                "query" => {
                    self.n += 1;
                    let n = self.n;
                    ev(&sh, json!({"ev": "ss", "m": self.name, "n": n, "op": "query", "port": op.port, "prog": op.prog}));
                    let payload = Payload { prog: op.prog, s: self.name.clone(), n, c: 0 };
                    let replies: Vec<i64> = match &mut self.ports[op.port - 1] {
                        Port::Req(r) => {
                            if op.take < 0 {
                                r.send(payload).await.collect()
                            } else {
                                r.send(payload).await.take(op.take as usize).collect()
                            }
                        }
                        Port::Out(_) => panic!("harness: query on an output port"),
                    };
                    ev(&sh, json!({"ev": "sd", "m": self.name, "n": n, "replies": replies, "take": op.take}));
                }
                "panic" => {
                    ev(&sh, json!({"ev": "ss", "m": self.name, "n": self.n, "op": "panic", "port": 0, "prog": 0}));
                    {
                        let mut busy = sh.busy.lock().unwrap();
                        busy.insert(self.name.clone(), false);
                    }
                    std::panic::panic_any(format!("boom:{}", self.name));
                }
                other => panic!("harness: unknown op {}", other),
            }
        }
    }
}

impl Model for BModel {
    async fn init(mut self, cx: &mut Context<Self>) -> InitializedModel<Self> {
        let sh = self.shared.clone();
        {
            let mut busy = sh.busy.lock().unwrap();
            let was = busy.insert(self.name.clone(), true).unwrap_or(false);
            ev(&sh, json!({"ev": "ib", "m": self.name, "name": cx.name(), "overlap": was}));
        }
        let p = self.initprog;
        self.exec(p).await;
        {
            let mut busy = sh.busy.lock().unwrap();
            busy.insert(self.name.clone(), false);
            ev(&sh, json!({"ev": "ie", "m": self.name}));
        }
        self.into()
    }
}

/// A model prototype that adds its sub-models while it is built.
pub struct BProto {
    model: BModel,
    children: Vec<(BProto, Mailbox<BModel>, String)>,
}

impl ProtoModel for BProto {
    type Model = BModel;

    fn build(self, cx: &mut BuildContext<Self>) -> BModel {
        for (child, mbox, short) in self.children {
            cx.add_submodel(child, mbox, short);
        }
        self.model
    }
}

// ------------------------------------------------------------------------------------------------
// Schedule controller

struct Ctl {
    shared: Arc<Shared>,
    controlled: bool,
    yields: bool,
    prefix: Vec<usize>,
    pos: AtomicUsize,
    widths: Mutex<Vec<usize>>,
    taken: Mutex<Vec<usize>>,
    parked: Mutex<Vec<(usize, u64, Waker)>>,
    park_seq: AtomicUsize,
    spawn_order: Mutex<Vec<usize>>,
    names: Mutex<HashMap<usize, String>>,
    chans: Mutex<HashMap<usize, String>>,
    rng: Mutex<u64>,
    random: bool,
    delay_us: u64,
    sweep_point: u32,
    sweep_worker: i64,
}

fn next_rand(state: &mut u64) -> u64 {
    // splitmix64
    *state = state.wrapping_add(0x9E3779B97F4A7C15);
    let mut z = *state;
    z = (z ^ (z >> 30)).wrapping_mul(0xBF58476D1CE4E5B9);
    z = (z ^ (z >> 27)).wrapping_mul(0x94D049BB133111EB);
    z ^ (z >> 31)
}

impl Ctl {
    fn task_name(&self, task: usize) -> String {
        if let Some(n) = self.names.lock().unwrap().get(&task) {
            return n.clone();
        }
        "drv".to_string()
    }
}

impl Hooks for Ctl {
    fn spawned(&self, task: usize) {
        self.spawn_order.lock().unwrap().push(task);
    }

    fn pick(&self, queue: &[usize]) -> Option<usize> {
        if !self.controlled {
            return None;
        }
        // Candidates: runnable tasks in queue order, then parked yield points in park order (several
        // sub-sends of one broadcast park separately under the same task).
        let mut parked = self.parked.lock().unwrap();
        let ncand = queue.len() + parked.len();
        if ncand == 0 {
            return None;
        }
        let i = self.pos.fetch_add(1, Ordering::SeqCst);
        let k = if i < self.prefix.len() {
            self.prefix[i] % ncand
        } else if self.random {
            (next_rand(&mut self.rng.lock().unwrap()) % ncand as u64) as usize
        } else {
            0
        };
        self.widths.lock().unwrap().push(ncand);
        self.taken.lock().unwrap().push(k);
        if k < queue.len() {
            Some(queue[k])
        } else {
            let (task, _, waker) = parked.remove(k - queue.len());
            drop(parked);
            // we are inside the executor's run loop: waking pushes the task onto the run queue
            waker.wake();
            Some(task)
        }
    }

    fn yield_point(&self, _task: usize, _site: u32) -> bool {
        self.controlled && self.yields
    }

    fn park(&self, task: usize, waker: Waker) {
        let seq = self.park_seq.fetch_add(1, Ordering::SeqCst) as u64;
        self.parked.lock().unwrap().push((task, seq, waker));
    }

    fn point(&self, id: u32, a: usize, _b: usize) {
        if !self.controlled {
            if self.sweep_point != 0 {
                if id == self.sweep_point && self.delay_us > 0 && (self.sweep_worker < 0 || self.sweep_worker as usize == a) {
                    std::thread::sleep(Duration::from_micros(self.delay_us));
                }
                return;
            }
            if self.delay_us > 0 {
                let r = next_rand(&mut self.rng.lock().unwrap());
                if r % 4 == 0 {
                    std::thread::sleep(Duration::from_micros(r % (self.delay_us + 1)));
                }
            }
            return;
        }
        match id {
            10 => {
                let tgt = self.chans.lock().unwrap().get(&a).cloned().unwrap_or_else(|| "?".into());
                let t = self.task_name(verif::current_task());
                ev(&self.shared, json!({"ev": "push", "t": t, "tgt": tgt}));
            }
            11 => {
                let m = self.chans.lock().unwrap().get(&a).cloned().unwrap_or_else(|| "?".into());
                ev(&self.shared, json!({"ev": "pop", "m": m}));
            }
            _ => {}
        }
    }
}

// ------------------------------------------------------------------------------------------------

fn chan_id(mb: &Mailbox<BModel>) -> usize {
    // Mailbox's Debug output is `Mailbox { mailbox_id: "<id>", .. }`
    let s = format!("{:?}", mb);
    let a = s.find('"').unwrap();
    let b = s[a + 1..].find('"').unwrap();
    s[a + 1..a + 1 + b].parse().unwrap()
}

fn res(r: &str, model: &str, n: u64, list: Value) -> Value {
    json!({"r": r, "model": model, "n": n, "list": list})
}

fn payload_string(p: &Box<dyn Any + Send>) -> String {
    if let Some(s) = p.downcast_ref::<&str>() {
        s.to_string()
    } else if let Some(s) = p.downcast_ref::<String>() {
        s.clone()
    } else {
        "<non-string payload>".to_string()
    }
}

fn exec_result(r: Result<(), ExecutionError>) -> Value {
    match r {
        Ok(()) => res("ok", "", 0, json!([])),
        Err(ExecutionError::Terminated) => res("terminated", "", 0, json!([])),
        Err(ExecutionError::Deadlock(l)) => {
            let mut v: Vec<(String, usize)> = l.iter().map(|d| (d.model.clone(), d.mailbox_size)).collect();
            v.sort();
            let list: Vec<Value> = v.iter().map(|(m, n)| json!({"model": m, "n": n})).collect();
            res("deadlock", "", 0, json!(list))
        }
        Err(ExecutionError::MessageLoss(n)) => res("msgloss", "", n as u64, json!([])),
        Err(ExecutionError::NoRecipient { model }) => res("norecipient", &model.unwrap_or_default(), 0, json!([])),
        Err(ExecutionError::Panic { model, payload }) => {
            // the payload must be the one thrown by the model named in the report
            let s = payload_string(&payload);
            if s == format!("boom:{}", model) {
                res("panic", &model, 0, json!([]))
            } else {
                res("panic", &format!("{}|payload={}", model, s), 0, json!([]))
            }
        }
        Err(ExecutionError::Timeout) => res("timeout", "", 0, json!([])),
        Err(ExecutionError::OutOfSync(_)) => res("outofsync", "", 0, json!([])),
        Err(ExecutionError::BadQuery) => res("badquery", "", 0, json!([])),
        Err(ExecutionError::InvalidDeadline(_)) => res("invalid_deadline", "", 0, json!([])),
    }
}

struct Built {
    init: SimInit,
    addrs: HashMap<String, Address<BModel>>,
    sinks: Vec<(String, EventBuffer<Payload>)>,
    _orphan: Mailbox<BModel>,
    chans: HashMap<usize, String>,
    esrc: HashMap<String, EventSource<Payload>>,
    qsrc: HashMap<String, QuerySource<Payload, i64>>,
}

fn build(b: &BenchDef, sh: &Arc<Shared>, threads: usize) -> Built {
    let mut mailboxes: HashMap<String, Mailbox<BModel>> = HashMap::new();
    let mut addrs: HashMap<String, Address<BModel>> = HashMap::new();
    let mut chans: HashMap<usize, String> = HashMap::new();
    for m in b.models.iter() {
        let mb = Mailbox::with_capacity(b.cap[m]);
        addrs.insert(m.clone(), mb.address());
        chans.insert(chan_id(&mb), m.clone());
        mailboxes.insert(m.clone(), mb);
    }
    let orphan: Mailbox<BModel> = Mailbox::with_capacity(b.cap["ORPHAN"]);
    addrs.insert("ORPHAN".into(), orphan.address());
    chans.insert(chan_id(&orphan), "ORPHAN".into());
    let sinks: Vec<(String, EventBuffer<Payload>)> =
        b.sinks.iter().map(|s| (s.clone(), EventBuffer::with_capacity(4096))).collect();

    let mut models: HashMap<String, BModel> = HashMap::new();
    for m in b.models.iter() {
        let mut ports = Vec::new();
        for pd in b.ports[m].iter() {
            if pd.kind == "out" {
                let mut o: Output<Payload> = Output::new();
                for (i, c) in pd.conns.iter().enumerate() {
                    let ci = (i + 1) as u32;
                    let delta = c.delta;
                    let accept = c.accept.clone();
                    if let Some(sname) = c.tgt.strip_prefix("sink:") {
                        let sink = &sinks.iter().find(|(n, _)| n == sname).unwrap().1;
                        match c.mode.as_str() {
                            "plain" => o.connect_sink(sink),
                            "map" => o.map_connect_sink(
                                move |p: &Payload| Payload { prog: p.prog + delta, c: ci, ..p.clone() },
                                sink,
                            ),
                            _ => o.filter_map_connect_sink(
                                move |p: &Payload| {
                                    if accept.is_empty() || accept.contains(&p.prog) {
                                        Some(Payload { prog: p.prog + delta, c: ci, ..p.clone() })
                                    } else {
                                        None
                                    }
                                },
                                sink,
                            ),
                        }
                    } else {
                        let addr = addrs[&c.tgt].clone();
                        match c.mode.as_str() {
                            "plain" => o.connect(BModel::handle, addr),
                            "map" => o.map_connect(
                                move |p: &Payload| Payload { prog: p.prog + delta, c: ci, ..p.clone() },
                                BModel::handle,
                                addr,
                            ),
                            _ => o.filter_map_connect(
                                move |p: &Payload| {
                                    if accept.is_empty() || accept.contains(&p.prog) {
                                        Some(Payload { prog: p.prog + delta, c: ci, ..p.clone() })
                                    } else {
                                        None
                                    }
                                },
                                BModel::handle,
                                addr,
                            ),
                        }
                    }
                }
                ports.push(Port::Out(o));
            } else {
                let mut r: Requestor<Payload, i64> = Requestor::new();
                for (i, c) in pd.conns.iter().enumerate() {
                    let ci = (i + 1) as u32;
                    let delta = c.delta;
                    let accept = c.accept.clone();
                    let addr = addrs[&c.tgt].clone();
                    let radd = 100000 * ci as i64;
                    match c.mode.as_str() {
                        "plain" => r.connect(BModel::reply, addr),
                        "map" => r.map_connect(
                            move |p: &Payload| Payload { prog: p.prog + delta, c: ci, ..p.clone() },
                            move |x: i64| x + radd,
                            BModel::reply,
                            addr,
                        ),
                        _ => r.filter_map_connect(
                            move |p: &Payload| {
                                if accept.is_empty() || accept.contains(&p.prog) {
                                    Some(Payload { prog: p.prog + delta, c: ci, ..p.clone() })
                                } else {
                                    None
                                }
                            },
                            move |x: i64| x + radd,
                            BModel::reply,
                            addr,
                        ),
                    }
                }
                ports.push(Port::Req(r));
            }
        }
        models.insert(
            m.clone(),
            BModel { name: m.clone(), ports, n: 0, initprog: b.initprog[m], shared: sh.clone() },
        );
    }
    // assemble the hierarchy bottom-up: longest names first
    let mut names: Vec<String> = b.models.clone();
    names.sort_by_key(|n| std::cmp::Reverse(n.matches('.').count()));
    let mut protos: HashMap<String, BProto> = HashMap::new();
    for n in names.iter() {
        let model = models.remove(n).unwrap();
        protos.insert(n.clone(), BProto { model, children: Vec::new() });
    }
    for n in names.iter() {
        if let Some(pos) = n.rfind('.') {
            let parent = n[..pos].to_string();
            // a model whose (unqualified) name is "<unknown>" in the bench is added with an empty name
            let short = if &n[pos + 1..] == "<unknown>" { String::new() } else { n[pos + 1..].to_string() };
            let child = protos.remove(n).unwrap();
            let mb = mailboxes.remove(n).unwrap();
            protos.get_mut(&parent).unwrap().children.push((child, mb, short));
        }
    }
    let mut init = SimInit::with_num_threads(threads);
    let mut tops: Vec<String> = protos.keys().cloned().collect();
    tops.sort();
    for n in tops {
        let proto = protos.remove(&n).unwrap();
        let mb = mailboxes.remove(&n).unwrap();
        init = init.add_model(proto, mb, if n == "<unknown>" { String::new() } else { n });
    }
    // event / query sources of the driver
    let mut esrc: HashMap<String, EventSource<Payload>> = HashMap::new();
    let mut qsrc: HashMap<String, QuerySource<Payload, i64>> = HashMap::new();
    for (k, pd) in b.sources.iter().enumerate() {
        let name = format!("S{}", k + 1);
        if pd.kind == "out" {
            let mut o: EventSource<Payload> = EventSource::new();
            for (i, c) in pd.conns.iter().enumerate() {
                let ci = (i + 1) as u32;
                let delta = c.delta;
                let accept = c.accept.clone();
                let addr = addrs[&c.tgt].clone();
                match c.mode.as_str() {
                    "plain" => o.connect(BModel::handle, addr),
                    "map" => o.map_connect(
                        move |p: &Payload| Payload { prog: p.prog + delta, c: ci, ..p.clone() },
                        BModel::handle,
                        addr,
                    ),
                    _ => o.filter_map_connect(
                        move |p: &Payload| {
                            if accept.is_empty() || accept.contains(&p.prog) {
                                Some(Payload { prog: p.prog + delta, c: ci, ..p.clone() })
                            } else {
                                None
                            }
                        },
                        BModel::handle,
                        addr,
                    ),
                }
            }
            esrc.insert(name, o);
        } else {
            let mut r: QuerySource<Payload, i64> = QuerySource::new();
            for (i, c) in pd.conns.iter().enumerate() {
                let ci = (i + 1) as u32;
                let delta = c.delta;
                let accept = c.accept.clone();
                let addr = addrs[&c.tgt].clone();
                let radd = 100000 * ci as i64;
                match c.mode.as_str() {
                    "plain" => r.connect(BModel::reply, addr),
                    "map" => r.map_connect(
                        move |p: &Payload| Payload { prog: p.prog + delta, c: ci, ..p.clone() },
                        move |x: i64| x + radd,
                        BModel::reply,
                        addr,
                    ),
                    _ => r.filter_map_connect(
                        move |p: &Payload| {
                            if accept.is_empty() || accept.contains(&p.prog) {
                                Some(Payload { prog: p.prog + delta, c: ci, ..p.clone() })
                            } else {
                                None
                            }
                        },
                        move |x: i64| x + radd,
                        BModel::reply,
                        addr,
                    ),
                }
            }
            qsrc.insert(name, r);
        }
    }
    Built { init, addrs, sinks, _orphan: orphan, chans, esrc, qsrc }
}

/// Names of the model tasks in the order in which add_model spawns them (post-order).
fn spawn_names(models: &[String]) -> Vec<String> {
    fn visit(n: &str, models: &[String], out: &mut Vec<String>) {
        let mut kids: Vec<&String> = models
            .iter()
            .filter(|m| m.len() > n.len() && m.starts_with(n) && m.as_bytes()[n.len()] == b'.' && !m[n.len() + 1..].contains('.'))
            .collect();
        kids.sort();
        for k in kids {
            visit(k, models, out);
        }
        out.push(n.to_string());
    }
    let mut tops: Vec<&String> = models.iter().filter(|m| !m.contains('.')).collect();
    tops.sort();
    let mut out = Vec::new();
    for t in tops {
        visit(t, models, &mut out);
    }
    out
}

fn flush(sh: &Shared, out: &mut dyn Write) {
    let mut log = sh.log.lock().unwrap();
    for e in log.drain(..) {
        writeln!(out, "{}", e).unwrap();
    }
    out.flush().unwrap();
}

fn read_sinks(sinks: &mut [(String, EventBuffer<Payload>)], acc: &mut HashMap<String, Vec<i64>>) -> Value {
    let mut m = serde_json::Map::new();
    for (name, s) in sinks.iter_mut() {
        let e = acc.entry(name.clone()).or_default();
        for p in s.by_ref() {
            e.push(p.prog);
        }
        m.insert(name.clone(), json!(e.clone()));
    }
    Value::Object(m)
}

pub static HEARTBEAT: std::sync::atomic::AtomicU64 = std::sync::atomic::AtomicU64::new(0);

/// One run under a given choice prefix; returns (widths, choices taken).
fn one_run(inp: &Input, id: u64, prefix: &[usize], seed: u64, out: &mut dyn Write, start: &Instant) -> (Vec<usize>, Vec<usize>) {
    let b = &inp.bench;
    let index: HashMap<String, usize> = b.models.iter().enumerate().map(|(i, m)| (m.clone(), i)).collect();
    let sh = Arc::new(Shared { log: Mutex::new(Vec::new()), prog: b.prog.clone(), index, busy: Mutex::new(HashMap::new()) });
    let controlled = inp.threads == 1 && inp.mode != "free";
    let ctl = Arc::new(Ctl {
        shared: sh.clone(),
        controlled,
        yields: inp.yields,
        prefix: prefix.to_vec(),
        pos: AtomicUsize::new(0),
        widths: Mutex::new(Vec::new()),
        taken: Mutex::new(Vec::new()),
        parked: Mutex::new(Vec::new()),
        park_seq: AtomicUsize::new(0),
        spawn_order: Mutex::new(Vec::new()),
        names: Mutex::new(HashMap::new()),
        chans: Mutex::new(HashMap::new()),
        rng: Mutex::new(seed),
        random: inp.mode == "random",
        delay_us: inp.delay_us,
        sweep_point: inp.sweep_point,
        sweep_worker: inp.sweep_worker,
    });
    // The hooks are installed before the bench is built so that the model tasks are reported as they
    // are spawned by add_model: children before their parent (the parent's build() runs first and
    // adds them), top-level models in name order.
    verif::install(Some(ctl.clone()));
    let built = build(b, &sh, inp.threads);
    *ctl.chans.lock().unwrap() = built.chans.clone();
    {
        let order = ctl.spawn_order.lock().unwrap().clone();
        let expected = spawn_names(&b.models);
        let mut names = ctl.names.lock().unwrap();
        for (id, n) in order.iter().zip(expected.iter()) {
            names.insert(*id, n.clone());
        }
    }
    writeln!(out, "{}", json!({"ev": "reset", "run": id, "threads": inp.threads, "exact": controlled,
                               "yields": inp.yields, "prefix": prefix})).unwrap();
    HEARTBEAT.store(start.elapsed().as_millis() as u64 + 1, Ordering::SeqCst);
    let Built { init, addrs, mut sinks, _orphan, chans: _, mut esrc, mut qsrc } = built;
    let mut acc: HashMap<String, Vec<i64>> = HashMap::new();
    ev(&sh, json!({"ev": "cmd", "c": "init"}));
    let r = panic::catch_unwind(AssertUnwindSafe(move || init.init(MonotonicTime::EPOCH)));
    let mut simu: Option<Simulation> = None;
    let resv = match r {
        Ok(Ok((s, _sched))) => {
            simu = Some(s);
            res("ok", "", 0, json!([]))
        }
        Ok(Err(e)) => exec_result(Err(e)),
        Err(p) => res("PANICKED", &payload_string(&p), 0, json!([])),
    };
    let sk = read_sinks(&mut sinks, &mut acc);
    ev(&sh, json!({"ev": "ret", "res": resv, "sinks": sk, "reply": 0}));
    flush(&sh, out);
    if let Some(simu) = simu.as_mut() {
        let mut n = 0u64;
        for p in b.procs.iter() {
            HEARTBEAT.store(start.elapsed().as_millis() as u64 + 1, Ordering::SeqCst);
            n += 1;
            ev(&sh, json!({"ev": "cmd", "c": "process", "kind": p.kind, "target": p.target, "prog": p.prog}));
            let payload = Payload { prog: p.prog, s: "drv".into(), n, c: 0 };
            let mut reply = 0i64;
            let mut replies: Vec<i64> = Vec::new();
            let r = panic::catch_unwind(AssertUnwindSafe(|| {
                if p.kind == "srcevent" {
                    let action = esrc.get_mut(&p.target).expect("event source").event(payload);
                    exec_result(simu.process(action))
                } else if p.kind == "srcquery" {
                    let (action, mut rx) = qsrc.get_mut(&p.target).expect("query source").query(payload);
                    let r = exec_result(simu.process(action));
                    if let Some(it) = rx.take() {
                        replies = it.collect();
                    }
                    r
                } else if p.kind == "event" {
                    let addr = addrs[&p.target].clone();
                    exec_result(simu.process_event(BModel::handle, payload, &addr))
                } else {
                    let addr = addrs[&p.target].clone();
                    match simu.process_query(BModel::reply, payload, &addr) {
                        Ok(v) => {
                            reply = v;
                            res("ok", "", 0, json!([]))
                        }
                        Err(e) => exec_result(Err(e)),
                    }
                }
            }));
            let resv = match r {
                Ok(v) => v,
                Err(p) => res("PANICKED", &payload_string(&p), 0, json!([])),
            };
            if inp.threads > 1 && resv["r"] == "panic" {
                std::thread::sleep(Duration::from_millis(30));
            }
            let sk = read_sinks(&mut sinks, &mut acc);
            ev(&sh, json!({"ev": "ret", "res": resv, "sinks": sk, "reply": reply, "replies": replies}));
            flush(&sh, out);
        }
    }
    HEARTBEAT.store(start.elapsed().as_millis() as u64 + 1, Ordering::SeqCst);
    drop(simu);
    verif::install(None);
    flush(&sh, out);
    writeln!(out, "{}", json!({"ev": "end", "run": id})).unwrap();
    out.flush().unwrap();
    let w = ctl.widths.lock().unwrap().clone();
    let t = ctl.taken.lock().unwrap().clone();
    (w, t)
}

pub fn main(args: &[String]) {
    let inp: Input =
        serde_json::from_reader(std::io::BufReader::new(std::fs::File::open(&args[0]).expect("input"))).expect("json");
    let mut out = std::io::BufWriter::new(std::fs::File::create(&args[1]).expect("output"));
    let start = Instant::now();
    {
        let start = start;
        std::thread::spawn(move || loop {
            std::thread::sleep(Duration::from_millis(200));
            let hb = HEARTBEAT.load(Ordering::SeqCst);
            if hb != 0 && start.elapsed().as_millis() as u64 > hb + 15_000 {
                std::process::exit(3);
            }
        });
    }
    panic::set_hook(Box::new(|_| {}));
    let mut id = inp.first_id;
    let mut exhausted = false;
    if inp.mode == "dfs" && inp.threads == 1 {
        let mut prefix: Vec<usize> = Vec::new();
        let mut runs = 0;
        loop {
            id += 1;
            runs += 1;
            let (w, t) = one_run(&inp, id, &prefix, inp.seed, &mut out, &start);
            // next choice sequence in depth-first order
            let mut k = t.len();
            let mut next = None;
            while k > 0 {
                k -= 1;
                if t[k] + 1 < w[k] {
                    let mut p = t[..k].to_vec();
                    p.push(t[k] + 1);
                    next = Some(p);
                    break;
                }
            }
            match next {
                Some(p) => prefix = p,
                None => {
                    exhausted = true;
                    break;
                }
            }
            if runs >= inp.max_runs {
                break;
            }
        }
    } else {
        let mut s = inp.seed;
        for _ in 0..inp.max_runs {
            id += 1;
            let seed = next_rand(&mut s);
            one_run(&inp, id, &[], seed, &mut out, &start);
        }
    }
    writeln!(out, "{}", json!({"ev": "summary", "exhausted": exhausted, "runs": id - inp.first_id})).unwrap();
    out.flush().unwrap();
    HEARTBEAT.store(0, Ordering::SeqCst);
}
