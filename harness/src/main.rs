//! Conformance harness for the TLA+ specifications in /verif/specs.
//! Sub-commands are selected by the first argument; see /verif/check.
mod bench;
mod chan;
mod clones;
mod pool;
mod queue;
mod seqds;
mod simcore;
mod taskeng;
mod taskset;
mod timecell;

fn main() {
    let args: Vec<String> = std::env::args().collect();
    if args.len() < 2 {
        eprintln!("usage: vharness <engine> <args..>");
        std::process::exit(2);
    }
    match args[1].as_str() {
        "simcore" => simcore::main(&args[2..]),
        "seqds" => seqds::main(&args[2..]),
        "bench" => bench::main(&args[2..]),
        "queue" => queue::main(&args[2..]),
        "clones" => clones::main(&args[2..]),
        "clonesconc" => clones::conc_main(&args[2..]),
        "chan" => chan::main(&args[2..]),
        "pool" => pool::main(&args[2..]),
        "task" => taskeng::main(&args[2..]),
        "taskset" => taskset::main(&args[2..]),
        "timecell" => timecell::main(&args[2..]),
        other => {
            eprintln!("unknown engine {}", other);
            std::process::exit(2);
        }
    }
}
