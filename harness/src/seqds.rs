//! Replay engine for the sequential data structures: event sinks (Sinks.tla) and priority
//! queues (PQ.tla).  Executes operation sequences on the real objects and writes what each
//! operation returned; the comparison with the specification is done by the caller.

use std::io::Write;

use nexosim::ports::{EventBuffer, EventSink, EventSinkStream, EventSinkWriter, EventSlot};
use nexosim::verif::pq::{Ipq, Pq};
use serde::Deserialize;
use serde_json::{json, Value};

#[derive(Deserialize)]
struct OpRec {
    op: String,
    #[serde(default)]
    arg: u64,
}

#[derive(Deserialize)]
struct Input {
    kind: String,
    #[serde(default)]
    capacity: usize,
    #[serde(default)]
    start_open: bool,
    behaviours: Vec<Vec<OpRec>>,
}

fn run_buffer(cap: usize, start_open: bool, ops: &[OpRec]) -> Vec<Value> {
    let mut sink: EventBuffer<u64> =
        if start_open { EventBuffer::with_capacity(cap) } else { EventBuffer::with_capacity_closed(cap) };
    let writer = sink.writer();
    let mut next = 1u64;
    let mut out = Vec::new();
    for o in ops {
        match o.op.as_str() {
            "write" => {
                writer.write(next);
                out.push(json!([next]));
                next += 1;
            }
            "next" => out.push(match sink.next() {
                Some(v) => json!([v]),
                None => json!([]),
            }),
            "drain" => {
                // the fold entry point of the stream trait (overridden by the buffer)
                let v: Vec<u64> = EventSinkStream::__try_fold(&mut sink, Vec::new(), |mut acc, x| {
                    acc.push(x);
                    Ok::<_, ()>(acc)
                })
                .unwrap();
                out.push(json!(v));
            }
            "open" => {
                sink.open();
                out.push(json!([]));
            }
            "close" => {
                sink.close();
                out.push(json!([]));
            }
            other => panic!("unknown op {}", other),
        }
    }
    out
}

fn run_slot(start_open: bool, ops: &[OpRec]) -> Vec<Value> {
    let mut sink: EventSlot<u64> = if start_open { EventSlot::new() } else { EventSlot::new_closed() };
    let writer = sink.writer();
    let mut next = 1u64;
    let mut out = Vec::new();
    for o in ops {
        match o.op.as_str() {
            "write" => {
                writer.write(next);
                out.push(json!([next]));
                next += 1;
            }
            "next" => out.push(match sink.next() {
                Some(v) => json!([v]),
                None => json!([]),
            }),
            "drain" => {
                let v: Vec<u64> = EventSinkStream::__try_fold(&mut sink, Vec::new(), |mut acc, x| {
                    acc.push(x);
                    Ok::<_, ()>(acc)
                })
                .unwrap();
                out.push(json!(v));
            }
            "open" => {
                sink.open();
                out.push(json!([]));
            }
            "close" => {
                sink.close();
                out.push(json!([]));
            }
            other => panic!("unknown op {}", other),
        }
    }
    out
}

fn opt(v: Option<(u64, u64)>) -> Value {
    match v {
        Some((k, e)) => json!([k, e]),
        None => json!([]),
    }
}

fn run_pq(ops: &[OpRec]) -> Vec<Value> {
    let mut q = Pq::new();
    let mut n = 1u64;
    let mut out = Vec::new();
    for o in ops {
        match o.op.as_str() {
            "insert" => {
                q.insert(o.arg, n);
                n += 1;
                out.push(json!([]));
            }
            "pull" => out.push(opt(q.pull())),
            "peek" => out.push(opt(q.peek())),
            "churn" => {
                // arg times (insert with key 0, pull): counts the pairs whose pull returned the entry just inserted
                let mut good = 0u64;
                for _ in 0..o.arg {
                    q.insert(0, n);
                    if q.pull() == Some((0, n)) {
                        good += 1;
                    }
                    n += 1;
                }
                out.push(json!([good]));
            }
            "ballast" => {
                // arg inserts with key 9 in one recorded step
                for _ in 0..o.arg {
                    q.insert(9, n);
                    n += 1;
                }
                out.push(json!([o.arg]));
            }
            other => panic!("unknown op {}", other),
        }
    }
    out
}

fn run_ipq(ops: &[OpRec]) -> Vec<Value> {
    let mut q = Ipq::new();
    let mut handles: Vec<(usize, u64)> = Vec::new();
    let mut n = 1u64;
    let mut out = Vec::new();
    for o in ops {
        match o.op.as_str() {
            "insert" => {
                handles.push(q.insert(o.arg, n));
                n += 1;
                out.push(json!([]));
            }
            "pull" => out.push(opt(q.pull())),
            "peek" => {
                let p = q.peek();
                // peek_key must agree with peek
                if p.map(|x| x.0) != q.peek_key() {
                    out.push(json!(["peek_key disagrees"]));
                } else {
                    out.push(opt(p));
                }
            }
            "churn" => {
                let mut good = 0u64;
                for _ in 0..o.arg {
                    handles.push(q.insert(0, n));
                    if q.pull() == Some((0, n)) {
                        good += 1;
                    }
                    n += 1;
                }
                out.push(json!([good]));
            }
            "ballast" => {
                for _ in 0..o.arg {
                    handles.push(q.insert(9, n));
                    n += 1;
                }
                out.push(json!([o.arg]));
            }
            "extract" => out.push(opt(q.extract(handles[(o.arg - 1) as usize]))),
            other => panic!("unknown op {}", other),
        }
    }
    out
}

pub fn main(args: &[String]) {
    let input: Input =
        serde_json::from_reader(std::io::BufReader::new(std::fs::File::open(&args[0]).expect("input")))
            .expect("json");
    let mut out = std::io::BufWriter::new(std::fs::File::create(&args[1]).expect("output"));
    for b in input.behaviours.iter() {
        let r = std::panic::catch_unwind(|| match input.kind.as_str() {
            "buffer" => run_buffer(input.capacity, input.start_open, b),
            "slot" => run_slot(input.start_open, b),
            "pq" => run_pq(b),
            "ipq" => run_ipq(b),
            other => panic!("unknown kind {}", other),
        });
        match r {
            Ok(v) => writeln!(out, "{}", json!(v)).unwrap(),
            Err(_) => writeln!(out, "{}", json!(["PANICKED"])).unwrap(),
        }
    }
    out.flush().unwrap();
}
