#!/usr/bin/env python3
"""F8 demonstration: a Scheduler request issued from another thread while step_until() is between its bounded
look-ahead (queue lock released) and the write of the target time is accepted with a deadline that the simulation
then jumps over.  Uses hook point 45 (cfg nexosim_verif) to widen the window; prints the recorded trace.
usage: python3 findings/F8_demo.py   (harness must be built: ./check setup)"""
import json, os, sys
sys.path.insert(0, "/verif/tools")
import simcore
from simbench import BENCHES
from tla import OUT
b = BENCHES["chrono"]
run = dict(id=1, threads=1, tick_ns=1, t0_secs=0, lags=[],
           cmds=[dict(c="step_until", abs=True, d=3), dict(c="step"), dict(c="step")],
           xsched=[dict(target="m1", abs=True, d=2, kind="once", per=0, slot="k3", prog=1)],
           x_gap_us=20000, delay_point=45, delay_us=100000)
traces, incidents = simcore.run_harness(b, [run], os.path.join(OUT, "F8"), "f8", nproc=1)
for e in traces[0]:
    print(json.dumps(e))
