#!/bin/bash
# usage: try_mutant.sh <seed-id> <check-id> [tier]   -- applies the seeded change to /repo, runs the check, undoes it
ID=$1; CHK=$2; TIER=${3:-quick}
cd /repo && git status --short | grep -q . && { echo "repo dirty"; exit 2; }
git -C /repo apply /verif/seeded/$ID/patch.diff || { echo "patch does not apply"; exit 2; }
cd /verif && ./check $CHK $TIER > /verif/out/mut_${ID}_${CHK}.log 2>&1; RC=$?
git -C /repo checkout -- .
echo "seed=$ID check=$CHK tier=$TIER rc=$RC $(grep -c VIOLATION /verif/out/mut_${ID}_${CHK}.log) violations"
grep -m2 -A1 VIOLATION /verif/out/mut_${ID}_${CHK}.log | cut -c1-400
tail -1 /verif/out/mut_${ID}_${CHK}.log
