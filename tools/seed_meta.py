#!/usr/bin/env python3
"""Writes /verif/seeded/<id>/meta.json from the sub-agent's description, my own confirmation run in the scratch
worktree and the outcome of the checks run against the change.  usage: seed_meta.py <id> <check>=<detected|missed>:<note> ..."""
import json
import os
import sys

sid = sys.argv[1]
d = os.path.join("/verif/seeded", sid)
agent = json.load(open(os.path.join(d, "agent_meta.json")))
confirm = json.load(open(os.path.join(d, "confirm.json")))
path = os.path.join(d, "meta.json")
meta = json.load(open(path)) if os.path.exists(path) else {}
meta.update(dict(
    id=sid, property=agent["property"], summary=agent["summary"], needs=agent["needs"],
    demonstration=agent.get("demo_cmd"),
    confirmed_in_scratch_worktree=dict(
        demo_fails_with_change=confirm["demo_with_rc"] != 0,
        demo_passes_without_change=confirm["demo_without_rc"] == 0,
        existing_suite_failures_with_change=confirm["suite_failed_non_demo"] or "none",
        how="tools/verify_mutant.sh: ran the demonstration with the change, stashed the library change and ran it again, "
            "then ran `cargo test --workspace --no-fail-fast --offline` with the change (demonstration moved aside)"),
))
runs = meta.setdefault("checks_run", {})
for a in sys.argv[2:]:
    chk, rest = a.split("=", 1)
    verdict, _, note = rest.partition(":")
    runs[chk] = dict(verdict=verdict, note=note,
                     how=f"git -C /repo apply seeded/{sid}/patch.diff; ./check {chk.split('@')[0]} {chk.split('@')[1] if '@' in chk else 'quick'}; git -C /repo checkout -- .")
json.dump(meta, open(path, "w"), indent=1)
print(path)
