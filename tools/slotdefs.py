"""SlotRA.tla: the one-shot reply slot (util/slot.rs) on the release/acquire memory model."""
import os

INVARIANTS = ["Safe", "ValueOnce", "NoLeak"]
VACUITY = ["NeverRead", "NeverWriterFrees"]     # each must be violated: the behaviours they exclude exist


def write_mc(name, consts, nreads, workdir, invariants=None):
    mod = f"MCslot_{name}"
    os.makedirs(workdir, exist_ok=True)
    with open(os.path.join(workdir, mod + ".tla"), "w") as f:
        f.write(f"---- MODULE {mod} ----\nEXTENDS SlotRA\n====\n")
    cfg = ["SPECIFICATION Spec", "CONSTANTS", f"  NReads = {nreads}"]
    for k, v in consts.items():
        cfg.append(f"  {k} = " + (("TRUE" if v else "FALSE") if isinstance(v, bool) else f'"{v}"'))
    cfg += ["CHECK_DEADLOCK FALSE", "INVARIANTS", "  " + " ".join(invariants or INVARIANTS)]
    with open(os.path.join(workdir, mod + ".cfg"), "w") as f:
        f.write("\n".join(cfg) + "\n")
    return mod, mod + ".cfg"


def slot_part(chk, thorough, wd):
    """The reply slot of process_query / QuerySource actions (not among C14's anchors; the replies of the driver's
    queries travel through it): orderings read from util/slot.rs, TLC on SlotRA.tla."""
    import json
    import orderings
    from tla import ToolError, run_tlc
    consts = orderings.extract_slot()          # a shape the extractor does not know is a tool error (exit 2)
    for inv in VACUITY:
        mod, cfg = write_mc("vac_" + inv, consts, 2, wd, invariants=[inv])
        res = run_tlc(mod, cfg, wd, workers=4, timeout=900)
        if res.ok:
            raise ToolError(f"SlotRA.tla: vacuity guard {inv} holds (the instance does not exercise the slot)")
    for nreads in ((1, 2, 3) if thorough else (2,)):
        mod, cfg = write_mc(f"r{nreads}", consts, nreads, wd)
        res = run_tlc(mod, cfg, wd, workers=4, timeout=900)
        chk.add_tlc(f"SlotRA[{nreads} try_read] with the orderings of util/slot.rs", res)
        if not res.ok:
            why = next((ln.strip() for ln in reversed(res.trace) if ln.startswith("/\\ bad = ") and '"no"' not in ln), "")
            chk.violation(f"with the memory orderings found in util/slot.rs {consts} the release/acquire specification "
                          f"SlotRA.tla violates {res.violation} {why}: the reply slot of a driver-side query is read, "
                          f"dropped or freed by a thread not entitled to",
                          dict(engine="slot_ra", orderings=consts, counterexample=res.trace[-120:]),
                          signature=f"slotra:{json.dumps(consts, sort_keys=True)}")
            break
    chk.sample(dict(kind="orderings extracted from util/slot.rs", orderings=consts))
