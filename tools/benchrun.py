"""Bench binding: harness execution (schedule enumeration / free runs) and trace validation."""
import json
import os
import subprocess

from benchdefs import BENCH_INVARIANTS, BENCHES, constants
from framework import HARNESS
from simcore import Rejection, split_runs, _limit
from tla import OUT, ToolError, run_tlc, confirm_rejection


def run_bench(bench, workdir, tag, mode="dfs", threads=1, max_runs=2000, seed=1, yields=True, delay_us=0,
              first_id=0, timeout=600, sweep_point=0, sweep_worker=-1):
    """Runs the harness `bench` engine; returns (runs, summary, incident)."""
    os.makedirs(workdir, exist_ok=True)
    inp = os.path.join(workdir, tag + ".in.json")
    outp = os.path.join(workdir, tag + ".trace.ndjson")
    with open(inp, "w") as f:
        json.dump(dict(bench={k: bench[k] for k in ("models", "cap", "prog", "ports", "initprog", "sinks", "procs", "sources") if k in bench},
                       mode=mode, threads=threads, max_runs=max_runs, seed=seed, yields=yields, delay_us=delay_us,
                       first_id=first_id, sweep_point=sweep_point, sweep_worker=sweep_worker), f)
    try:
        p = subprocess.run([HARNESS, "bench", inp, outp], stdout=subprocess.DEVNULL, stderr=subprocess.PIPE,
                           preexec_fn=_limit, env=dict(os.environ, RUST_BACKTRACE="0"), timeout=timeout, text=True)
        rc = p.returncode
        err = p.stderr[-1500:]
    except subprocess.TimeoutExpired:
        rc, err = -9, "timeout"
    with open(outp, errors="replace") as f:
        lines = f.readlines()
    runs = split_runs(lines)
    summary = None
    if runs and runs[-1] and runs[-1][-1].get("ev") == "summary":
        summary = runs[-1].pop()
    incident = None
    if rc != 0:
        kind = "hang" if rc in (3, -9) else "crash"
        incident = dict(kind=kind, rc=rc, stderr=err)
        if runs and runs[-1][-1].get("ev") != "end":
            runs[-1].append(dict(ev=kind, rc=rc))
    os.remove(inp)
    os.remove(outp)
    return runs, summary, incident


def write_trace_module(b, workdir, invariants=BENCH_INVARIANTS):
    mod = f"Trb_{b['name']}"
    os.makedirs(workdir, exist_ok=True)
    with open(os.path.join(workdir, mod + ".tla"), "w") as f:
        f.write(f"---- MODULE {mod} ----\nEXTENDS Bench_Trace\n" + "\n".join(constants(b)) + "\n====\n")
    cfg = ["SPECIFICATION TraceSpec", "CONSTANTS", "  ModelSeq <- c_ModelSeq", "  Cap <- c_Cap", "  Prog <- c_Prog",
           "  Ports <- c_Ports", "  InitProg <- c_InitProg", "  Sinks <- c_Sinks",
           "CONSTRAINT Track", "POSTCONDITION TraceAccepted", "CHECK_DEADLOCK FALSE"]
    if invariants:
        cfg += ["INVARIANTS", "  " + " ".join(invariants)]
    with open(os.path.join(workdir, mod + ".cfg"), "w") as f:
        f.write("\n".join(cfg) + "\n")
    return mod, mod + ".cfg"


def _validate_chunk(mod, cfg, chunk, workdir, tag, max_rejections, timeout):
    remaining = list(chunk)
    rejections, accepted = [], 0
    stats = dict(states=0, transitions=0, wall=0.0, events=0)
    rnd = 0
    while remaining and len(rejections) < max_rejections:
        rnd += 1
        path = os.path.join(workdir, f"{tag}_v{rnd}.ndjson")
        with open(path, "w") as f:
            for r in remaining:
                for e in r:
                    f.write(json.dumps(e) + "\n")
        nev = sum(len(r) for r in remaining)
        res = run_tlc(mod, cfg, workdir, workers=1, timeout=timeout, dfs=True, heap="3g",
                      env_extra={"TRACE": path}, tags=("TRACE_REJECTED",), metaname=tag)
        stats["states"] += res.distinct
        stats["transitions"] += res.generated
        stats["wall"] += res.wall
        os.remove(path)
        if res.ok:
            accepted += len(remaining)
            stats["events"] += nev
            break
        if res.violation and res.violation.startswith("Invariant"):
            ls = [ln for ln in res.trace if ln.startswith("/\\ l = ")]
            n = int(ls[-1].split("=")[1]) - 2 if ls else 0
            reason = "invariant:" + res.violation.split()[1]

        elif res.printed:
            n = int(res.printed[-1].split(",")[1].strip())
            reason = "unmatched"
        else:
            raise ToolError("unexpected TLC outcome in trace validation: %s\n%s" % (res.violation, res.output[-3000:]))
        pos, hit = 0, None
        for i, r in enumerate(remaining):
            if n < pos + len(r):
                hit = i
                break
            pos += len(r)
        if hit is None:
            raise ToolError(f"rejection index {n} outside the trace ({nev} events)")
        accepted += hit
        stats["events"] += pos
        r = remaining[hit]
        k = max(0, n - pos)
        evt = r[k] if k < len(r) else None
        rs = reason
        if evt is not None and evt.get("ev") in ("hang", "crash") and reason == "unmatched":
            rs = evt["ev"]
        remaining = remaining[hit + 1:]
        if not confirm_rejection(mod, cfg, workdir, tag, r, res):
            accepted += 1
            continue
        rejections.append(Rejection(r, k, evt, rs, r[max(0, k - 6):k]))
    return accepted, rejections, stats


def validate(bench, runs, workdir, tag, invariants=BENCH_INVARIANTS, max_rejections=5, chunk_events=30000,
             parallel=8, timeout=900):
    from concurrent.futures import ThreadPoolExecutor
    mod, cfg = write_trace_module(bench, workdir, invariants)
    chunks, cur, n = [], [], 0
    for r in runs:
        cur.append(r)
        n += len(r)
        if n >= chunk_events:
            chunks.append(cur)
            cur, n = [], 0
    if cur:
        chunks.append(cur)
    accepted, rejections = 0, []
    stats = dict(states=0, transitions=0, wall=0.0, events=0)
    with ThreadPoolExecutor(max_workers=parallel) as ex:
        futs = [ex.submit(_validate_chunk, mod, cfg, ch, workdir, f"{tag}_c{i}", max_rejections, timeout)
                for i, ch in enumerate(chunks)]
        for f in futs:
            a, rj, st = f.result()
            accepted += a
            rejections.extend(rj)
            for k in stats:
                stats[k] += st[k]
    return accepted, rejections[:max_rejections], stats


if __name__ == "__main__":
    import sys
    name = sys.argv[1]
    b = BENCHES[name]
    wd = os.path.join(OUT, "benchsmoke")
    mode = sys.argv[2] if len(sys.argv) > 2 else "dfs"
    threads = int(sys.argv[3]) if len(sys.argv) > 3 else 1
    runs, summary, inc = run_bench(b, wd, "smoke", mode=mode, threads=threads, max_runs=int(os.environ.get("N", "3000")),
                                   yields=os.environ.get("Y", "1") == "1")
    print("runs", len(runs), "summary", summary, "incident", inc)
    acc, rej, st = validate(b, runs, wd, "smoke")
    print("accepted", acc, "rejected", len(rej), st)
    for x in rej[:2]:
        print(x.reason, x.index, json.dumps(x.event))
        for e in x.run[:x.index + 1][-30:]:
            print("   ", json.dumps(e))
