"""Channel.tla (second half of C12, and the message count of C06): the wake-up protocol of the mailbox channel at the
granularity of one poll of a send / receive future.  TLC checks the invariants (Bounded, Lossless, CountExact,
NoStuckSender, NoStuckReceiver) on every history up to the bound and exports the histories with every observable after
every operation; each history is replayed on the real channel (futures polled by hand, counting wakers) and every
result, wake-up count, received sequence, length and message count compared."""
import json
import os
import subprocess

from framework import HARNESS
from tla import ToolError, parse_printed, run_tlc, to_tla

INVARIANTS = ["Bounded", "Lossless", "CountExact", "NoStuckSender", "NoStuckReceiver", "WaitSetSane"]


def write_mc(tag, cap, futs, max_recv, max_ops, wd, emit=True):
    mod = f"MCc_{tag}"
    os.makedirs(wd, exist_ok=True)
    with open(os.path.join(wd, mod + ".tla"), "w") as f:
        f.write(f"---- MODULE {mod} ----\nEXTENDS MC_Channel\nc_Futs == {to_tla(set(futs))}\n====\n")
    with open(os.path.join(wd, mod + ".cfg"), "w") as f:
        f.write(f"SPECIFICATION Spec\nCONSTANTS\n  Cap = {cap}\n  Futs <- c_Futs\n  MaxRecv = {max_recv}\n"
                f"  MaxOps = {max_ops}\nCHECK_DEADLOCK FALSE\nINVARIANTS\n  " + " ".join(INVARIANTS + (["EmitHist"] if emit else []))
                + "\n")
    return mod, mod + ".cfg"


def harness(inp, wd, tag):
    ip = os.path.join(wd, tag + ".in.json")
    op = os.path.join(wd, tag + ".out.ndjson")
    with open(ip, "w") as f:
        json.dump(inp, f)
    try:
        p = subprocess.run([HARNESS, "chan", ip, op], stdout=subprocess.PIPE, stderr=subprocess.PIPE, text=True,
                           env=dict(os.environ, RUST_BACKTRACE="0"), timeout=900, errors="replace")
        rc, err = p.returncode, p.stderr[-500:]
    except subprocess.TimeoutExpired:
        rc, err = -9, "timed out (hang)"
    lines = []
    if os.path.exists(op):
        with open(op, errors="replace") as f:
            for ln in f:
                try:
                    lines.append(json.loads(ln))
                except ValueError:
                    break
        os.remove(op)
    os.remove(ip)
    return lines, rc, err


def norm_spec(o, futs):
    sw = o["swoken"]
    sw = [sw[str(f)] for f in futs] if isinstance(sw, dict) else list(sw)
    return dict(swoken=sw, rwoken=list(o["rwoken"]), received=list(o["received"]), len=o["len"], count=o["count"])


def channel_part(chk, thorough, wd):
    configs = [(1, [1, 2, 3], 2, 8), (2, [1, 2, 3, 4], 2, 7)] if not thorough else \
        [(1, [1, 2, 3, 4], 3, 8), (2, [1, 2, 3, 4], 2, 9), (3, [1, 2, 3, 4, 5], 3, 8)]
    for cap, futs, max_recv, max_ops in configs:
        tag = f"c{cap}_{len(futs)}_{max_ops}"
        mod, cfg = write_mc(tag, cap, futs, max_recv, max_ops, wd)
        res = run_tlc(mod, cfg, wd, workers=12, timeout=3000)
        chk.add_tlc(f"Channel[capacity {cap}, {len(futs)} send futures, {max_recv} receive futures, {max_ops} operations]", res)
        if not res.ok:
            raise ToolError(f"Channel instance {tag} violates {res.violation}:\n" + "\n".join(res.trace[-40:]))
        seen, beh = set(), []
        for ln in res.printed:
            h = parse_printed(ln)[1]
            key = json.dumps([[o["op"], o["arg"]] for o in h])
            if key not in seen:
                seen.add(key)
                beh.append(h)
        lines, rc, err = harness(dict(cap=cap, futs=futs, max_recv=max_recv,
                                      behaviours=[[[o["op"], o["arg"]] for o in h] for h in beh]), wd, "chan_" + tag)
        if rc != 0:
            chk.violation(f"the harness process died while replaying channel histories (capacity {cap}): {rc} {err}",
                          dict(engine="chan", cap=cap), signature=f"chancrash:{cap}")
        bad = 0
        for h, g in zip(beh, lines):
            k, why = None, None
            if g.get("panicked"):
                k, why = 0, "the replay panicked"
            else:
                for i, (eo, go) in enumerate(zip(h, g["ops"])):
                    exp = norm_spec(eo["obs"], futs)
                    got = norm_spec(go["obs"], futs)
                    if eo["res"] != go["res"] or exp != got:
                        diff = {kk: (exp[kk], got[kk]) for kk in exp if exp[kk] != got[kk]}
                        k, why = i, f"result {go['res']} (Channel.tla: {eo['res']}), (expected, observed) differ in {diff}"
                        break
            if k is not None:
                if bad < 3:
                    ops = [[o["op"], o["arg"]] for o in h]
                    chk.violation(f"mailbox channel (capacity {cap}): after {ops[:k + 1]}: {why}",
                                  dict(engine="chan", cap=cap, futs=futs, max_recv=max_recv, ops=ops, expected=h,
                                       observed=g),
                                  signature=f"chan:{cap}:{json.dumps(ops[:k + 1])}")
                bad += 1
        chk.traces += len(beh)
        chk.evaluations += len(beh)
        if beh:
            chk.sample(dict(kind="channel history (future polls)", capacity=cap, history=beh[len(beh) // 2]))


if __name__ == "__main__":
    import sys
    from framework import Check, build_harness
    from tla import OUT
    build_harness()
    chk = Check("C12", "quick", 1)
    channel_part(chk, len(sys.argv) > 1 and sys.argv[1] == "thorough", os.path.join(OUT, "chantry"))
    print("violations", len(chk.violations), "histories", chk.traces)
    for v in chk.violations[:3]:
        print("  ", v["what"][:600])
