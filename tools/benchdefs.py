"""Benches for Bench.tla (model graphs, capacities, handler programs), shared by TLC and the Rust harness."""
import os

from tla import to_tla, to_tla_fn


def bop(name, port=1, prog=1, take=-1):
    return dict(op=name, port=port, prog=prog, take=take)


NOP = bop("nop")


def send(port, prog):
    return bop("send", port, prog)


def query(port, prog, take=-1):
    """take: number of replies read from the reply iterator before it is dropped (-1: all)."""
    return bop("query", port, prog, take)


def conn(tgt, mode="plain", accept=(), delta=0):
    return dict(tgt=tgt, mode=mode, accept=list(accept), delta=delta)


def out(*conns):
    return dict(kind="out", conns=list(conns))


def req(*conns):
    return dict(kind="req", conns=list(conns))


def ev(target, prog):
    return dict(kind="event", target=target, prog=prog)


def qr(target, prog):
    return dict(kind="query", target=target, prog=prog)


BENCHES = {}


def srcev(source, prog):
    """process(action) with an action of event source `source` ("S1", "S2", ...)."""
    return dict(kind="srcevent", target=source, prog=prog)


def srcqr(source, prog):
    return dict(kind="srcquery", target=source, prog=prog)


def bench(name, models, prog, ports, procs, cap=1, initprog=None, sinks=(), caps=None, sources=()):
    models = sorted(models)
    c = {m: cap for m in models}
    c["ORPHAN"] = 4
    if caps:
        c.update(caps)
    b = dict(name=name, models=models, cap=c, prog=prog,
             ports={m: ports.get(m, []) for m in models},
             initprog={m: (initprog or {}).get(m, 0) for m in models}, sinks=list(sinks), procs=procs,
             sources=list(sources))
    BENCHES[name] = b
    return b


# Chain A -> B -> C with capacity 1: senders suspend on full mailboxes.
bench("chain", ["A", "B", "C"],
      prog=[[send(1, 2), send(1, 2), send(1, 3)],   # 1 (A): three messages to B
            [send(1, 4)],                            # 2 (B): forward to C
            [NOP],                                   # 3 (B)
            [NOP]],                                  # 4 (C)
      ports={"A": [out(conn("B"))], "B": [out(conn("C"))]},
      procs=[ev("A", 1)])

# The triangle of the causality property: A sends M1 to B then M2 to C; C, processing M2, sends M3 to B.
bench("triangle", ["A", "B", "C"],
      prog=[[send(1, 2), send(2, 3)],   # 1 (A)
            [NOP],                       # 2 (B): M1
            [send(1, 4)],                # 3 (C): M2 -> M3 to B
            [NOP],                       # 4 (B): M3
            [send(2, 3), send(1, 2)]],   # 5 (A): the other order (M2 to C first, then M1 to B): unordered at B
      ports={"A": [out(conn("B")), out(conn("C"))], "C": [out(conn("B"))]},
      procs=[ev("A", 1), ev("A", 5)])

# Several laps of the recipient's ring buffer: A sends a long series directly to B and, interleaved, through the relay C.
bench("laps", ["A", "B", "C"],
      prog=[[send(1, 2), send(2, 4), send(1, 3), send(1, 2), send(1, 3)],  # 1 (A)
            [NOP],            # 2 (B)
            [NOP],            # 3 (B)
            [send(1, 5)],     # 4 (C): forward to B
            [NOP]],           # 5 (B)
      ports={"A": [out(conn("B")), out(conn("C"))], "C": [out(conn("B"))]},
      procs=[ev("A", 1), ev("A", 1)])

# Fan-out with plain / map / filter_map connections to models and a sink.
bench("fanout", ["A", "B", "C"],
      prog=[[send(1, 2), send(1, 3)],   # 1 (A): two broadcasts
            [NOP],                       # 2
            [NOP],                       # 3
            [NOP]],                      # 4
      ports={"A": [out(conn("B"), conn("C", "map", delta=1), conn("B", "filter", accept=[3], delta=1),
                       conn("sink:s1"), conn("sink:s1", "filter", accept=[2]))]},
      sinks=["s1"],
      procs=[ev("A", 1), ev("A", 1)])

# One output connected to sinks through plain / map / filter_map connections and to a model with a small mailbox: the
# sinks receive what their connection lets through, in sending order, whether or not the model sender had to wait.
bench("sinkmix", ["A", "B"],
      prog=[[send(1, 2), send(1, 3), send(1, 4), send(2, 5)],   # 1 (A)
            [NOP], [NOP], [NOP], [NOP]],
      ports={"A": [out(conn("sink:s1"), conn("sink:s2", "map", delta=10), conn("sink:s1", "filter", accept=[3], delta=100),
                       conn("B"), conn("sink:s2", "filter", accept=[2, 4], delta=20)),
                   out(conn("sink:s2"))]},
      sinks=["s1", "s2"],
      procs=[ev("A", 1), ev("A", 1)])

# Ports of every small arity (1, 2, 3 connections) in which a filter_map connection rejects a message that its
# neighbour(s) accept, at every position (first, last, only), to models and to a sink: the broadcaster's special
# cases for 0, 1 and 2.. senders each see an accepting and a rejecting connection.
bench("arity_a", ["A", "B", "C"],
      prog=[[send(1, 2), send(1, 3), send(2, 2), send(2, 3), send(3, 2), send(3, 3)],   # 1 (A)
            [NOP],                                                                        # 2
            [NOP]],                                                                       # 3
      ports={"A": [out(conn("B", "filter", accept=[2]), conn("C")),                      # filter first, plain last
                   out(conn("B"), conn("C", "filter", accept=[3])),                      # plain first, filter last
                   out(conn("B", "filter", accept=[3]))]},                               # a single filtered connection
      procs=[ev("A", 1)])
bench("arity_b", ["A", "B", "C"],
      prog=[[send(1, 2), send(1, 3), send(2, 2), send(2, 3), send(3, 3), send(3, 2)],   # 1 (A)
            [NOP],                                                                        # 2
            [NOP]],                                                                       # 3
      ports={"A": [out(conn("sink:s1", "filter", accept=[2]), conn("B")),               # filtered sink + plain model
                   out(conn("B", "filter", accept=[2]), conn("C", "filter", accept=[3])),  # two disjoint filters
                   out(conn("C", "map", delta=0), conn("sink:s1"), conn("B", "filter", accept=[2]))]},  # three
      sinks=["s1"],
      procs=[ev("A", 1)])
bench("arity_q", ["A", "B", "C"],
      prog=[[query(1, 2), query(1, 3), query(2, 2), query(2, 3)],   # 1 (A)
            [NOP],                                                    # 2
            [NOP]],                                                   # 3
      ports={"A": [req(conn("B", "filter", accept=[2]), conn("C")),
                   req(conn("B"), conn("C", "filter", accept=[3]))]},
      sources=[out(conn("A", "filter", accept=[2]), conn("B")),                      # S1
               req(conn("B"), conn("C", "filter", accept=[3]))],                     # S2
      procs=[ev("A", 1), srcev("S1", 2), srcev("S1", 3), srcqr("S2", 2), srcqr("S2", 3)])

# Queries: A asks B, C (mapped) and B again (filtered); repliers themselves send an event to a sink.
bench("query", ["A", "B", "C"],
      prog=[[query(1, 2), query(1, 3)],  # 1 (A)
            [send(1, 4)],                 # 2 (replier): tell the sink
            [NOP],                        # 3
            [NOP]],                       # 4
      ports={"A": [req(conn("B"), conn("C", "map", delta=0), conn("B", "filter", accept=[3], delta=-1))],
             "B": [out(conn("sink:s1"))], "C": [out(conn("sink:s1"))]},
      sinks=["s1"],
      procs=[ev("A", 1), qr("B", 3)])

# Successive queries on one requestor whose reply iterators are read only in part (or not at all) before being dropped:
# the next query must still return one reply per accepting replier.
bench("qpartial", ["A", "B", "C", "D"],
      prog=[[query(1, 2, take=1), query(1, 2), query(1, 2, take=0), query(1, 2)],  # 1 (A)
            [NOP]],                                                                   # 2 (replier)
      ports={"A": [req(conn("B"), conn("C", "map", delta=0), conn("D"))]},
      procs=[ev("A", 1)])

# Event and query sources of the driver (the scheduler-side broadcasters): several connections per source (plain, map,
# filter), two connections into the same capacity-1 mailbox so that a sub-send has to wait for space and, for a query,
# stays pending across several wake-ups.
bench("sources", ["A", "B"],
      prog=[[NOP],
            [NOP]],
      ports={},
      sources=[out(conn("A"), conn("B"), conn("B", "map", delta=0), conn("A", "filter", accept=[2], delta=-1)),   # S1
               req(conn("B"), conn("B", "map", delta=0), conn("A"))],                                              # S2
      procs=[srcev("S1", 1), srcqr("S2", 1), srcev("S1", 2), srcqr("S2", 2)])

# Saturating loop: A floods B (capacity 1) whose handler answers back to A (capacity 1): the outcome depends
# on the schedule (completes or deadlocks); governed by the deadlock-report property.
bench("saturate", ["A", "B"],
      prog=[[send(1, 2), send(1, 2), send(1, 2)],   # 1 (A)
            [send(1, 3)],                            # 2 (B): answer to A
            [NOP]],                                  # 3 (A)
      ports={"A": [out(conn("B"))], "B": [out(conn("A"))]},
      procs=[ev("A", 1)])

# Query loops: direct (A asks itself) and transitive (A asks B, B asks A).
bench("qloop", ["A", "B"],
      prog=[[query(1, 2)],     # 1 (A): ask B
            [query(1, 3)],     # 2 (B): ask A back -> deadlock
            [NOP],             # 3
            [query(2, 3)]],    # 4 (A): ask itself
      ports={"A": [req(conn("B")), req(conn("A"))], "B": [req(conn("A"))]},
      procs=[ev("A", 1)])
bench("qself", ["A", "B"],
      prog=[[NOP], [NOP], [NOP], [query(2, 3)]],
      ports={"A": [req(conn("B")), req(conn("A"))], "B": [req(conn("A"))]},
      procs=[ev("B", 1), ev("A", 4), ev("B", 1)])

# Orphan mailbox: messages sent to a mailbox that was never added are lost.
bench("orphan", ["A", "B"],
      prog=[[send(1, 2), send(2, 2)],   # 1 (A): to B and to the orphan
            [NOP]],
      ports={"A": [out(conn("B")), out(conn("ORPHAN"))]},
      procs=[ev("A", 1), ev("A", 1)])

# Saturated orphan mailbox: more messages than it holds, so that a sender is still suspended when the run stalls; the
# report counts the messages that were queued, not the one that never was.
bench("orphan2", ["A", "B"],
      prog=[[send(2, 2), send(1, 2), send(2, 2), send(2, 2), send(2, 2)],
            [NOP]],
      ports={"A": [out(conn("B")), out(conn("ORPHAN"))]},
      procs=[ev("A", 1)], caps={"ORPHAN": 2})

# Hierarchy: P has a child P.c added while P is built; init scripts send events to each other.
bench("hier", ["P", "P.c", "Q"],
      prog=[[send(1, 2)],     # 1: init of P: event to child
            [NOP],            # 2
            [send(1, 2)],     # 3: init of Q: event to P
            [query(2, 2)]],   # 4 (P.c): ask itself -> deadlock inside a sub-model
      ports={"P": [out(conn("P.c"))], "Q": [out(conn("P"))], "P.c": [out(conn("Q")), req(conn("P.c"))]},
      initprog={"P": 1, "Q": 3},
      procs=[ev("Q", 2), ev("P.c", 4)])


# Deadlocking saturation: B answers twice per message.
bench("saturate2", ["A", "B"],
      prog=[[send(1, 2), send(1, 2), send(1, 2)],   # 1 (A)
            [send(1, 3), send(1, 3)],                # 2 (B): two answers to A
            [NOP]],                                  # 3 (A)
      ports={"A": [out(conn("B"))], "B": [out(conn("A"))]},
      procs=[ev("A", 1)])

# Volume: many messages through small mailboxes, to a model and to a sink, with a forwarder.
bench("volume", ["A", "B", "C"],
      prog=[[send(1, 2), send(1, 3), send(1, 2), send(1, 3)],  # 1 (A): four to B and the sink
            [send(1, 4)],    # 2 (B): forward to C
            [NOP],           # 3 (B)
            [send(1, 4)]],   # 4 (C): to the sink
      ports={"A": [out(conn("B"), conn("sink:s1", "map", delta=10))], "B": [out(conn("C"))], "C": [out(conn("sink:s1"))]},
      sinks=["s1"],
      procs=[ev("A", 1)])

# Queries with 0..6 repliers and filtered subsets.
bench("query6", ["A", "B", "C", "D"],
      prog=[[query(1, 2), query(2, 3), query(3, 2)],   # 1 (A): 6 connections / 0 connections / all filtered out
            [NOP],                                      # 2
            [NOP],                                      # 3
            [NOP]],                                     # 4
      ports={"A": [req(conn("B"), conn("C", "filter", accept=[2], delta=1), conn("D", "filter", accept=[3]),
                       conn("B", "map", delta=2), conn("D"), conn("C", "filter", accept=[], delta=0)),
                   req(),
                   req(conn("B", "filter", accept=[9]), conn("C", "filter", accept=[9]))]},
      procs=[ev("A", 1)])

# Depth-3 hierarchy whose init scripts send events and a query to models not yet initialised.
bench("hier3", ["P", "P.c", "P.c.g", "Q"],
      prog=[[send(1, 2), send(2, 2)],   # 1: init of P: events to P.c.g and Q
            [NOP],                       # 2
            [query(1, 2)],               # 3: init of Q: query to P.c
            [send(1, 2)]],               # 4: init of P.c.g: event to P
      ports={"P": [out(conn("P.c.g")), out(conn("Q"))], "Q": [req(conn("P.c"))], "P.c.g": [out(conn("P"))]},
      initprog={"P": 1, "Q": 3, "P.c.g": 4},
      procs=[ev("P.c", 2)])


# Wrapped mailbox at the time of a deadlock: j no-op events, then a trigger that sends an event and a query to its
# own model: the queued messages straddle the end of the ring buffer for suitable (non power of two) capacities.
for j in range(4):
    bench(f"qwrap{j}", ["A", "B"],
          prog=[[NOP],
                [send(1, 1), query(2, 1)]],   # 2 (A): an event then a query to itself
          ports={"A": [out(conn("A")), req(conn("A"))]},
          procs=[ev("A", 1)] * j + [ev("A", 2)])


# A model panics while a message it has just sent is still in flight: the count of in-flight messages of the aborted run
# must not leak into the runs that follow on the same thread (each schedule of the enumeration is a new simulation).
bench("panic_inflight", ["A", "B", "C"],
      prog=[[send(1, 2), send(2, 2), bop("panic")],   # 1 (A): two events sent, then a panic
            [NOP]],                                    # 2
      ports={"A": [out(conn("B")), out(conn("C"))]},
      procs=[ev("B", 2), ev("A", 1)])

# Models added with an empty name are known as "<unknown>", also inside a hierarchy ("P.<unknown>", "P.<unknown>.x").
for who in ("P.<unknown>", "P.<unknown>.x", "<unknown>"):
    bench("hanon_" + who.replace(".", "_").replace("<", "").replace(">", ""), ["<unknown>", "P", "P.<unknown>", "P.<unknown>.x"],
          prog=[[NOP], [bop("panic")], [send(1, 1)]],
          ports={"P": [out(conn("P.<unknown>"))], "<unknown>": [out(conn("P.<unknown>.x"))]},
          initprog={"P": 3, "<unknown>": 3},
          procs=[ev("P.<unknown>.x", 1), ev(who, 2)])

# Panic attribution in a hierarchy: the panicking model is named by its fully qualified name.
for who in ("P", "P.a", "P.b", "P.a.x", "Q"):
    bench("hpanic_" + who.replace(".", "_"), ["P", "P.a", "P.a.x", "P.b", "Q"],
          prog=[[NOP], [bop("panic")], [send(1, 1)]],
          ports={"P": [out(conn("P.a"))], "Q": [out(conn("P.b"))]},
          initprog={"P": 3, "Q": 3},
          procs=[ev("Q", 1), ev(who, 2), ev("Q", 1)])


def constants(b):
    ports_tla = {m: [[dict(tgt=c["tgt"], mode=c["mode"], accept=set(c["accept"]), delta=c["delta"])
                      for c in p["conns"]] for p in b["ports"][m]] for m in b["models"]}
    ports_tla["drv"] = [[dict(tgt=c["tgt"], mode=c["mode"], accept=set(c["accept"]), delta=c["delta"])
                         for c in p["conns"]] for p in b.get("sources", [])]
    lines = [f"c_ModelSeq == {to_tla(b['models'])}",
             f"c_Cap == {to_tla_fn(b['cap'])}",
             f"c_Prog == {to_tla(b['prog'])}",
             f"c_Ports == {to_tla_fn(ports_tla)}",
             f"c_InitProg == {to_tla_fn(b['initprog'])}",
             f"c_Sinks == {to_tla(set(b['sinks']))}",
             f"c_Procs == {to_tla(b['procs'])}"]
    return lines


BENCH_INVARIANTS = ["CausalDelivery", "QuiescentMeansDone", "WithinCapacity", "InitOnceFirst", "ExactlyOnce",
                    "NothingInvented"]


def write_mc(b, workdir, emit=True):
    mod = f"MCb_{b['name']}"
    os.makedirs(workdir, exist_ok=True)
    with open(os.path.join(workdir, mod + ".tla"), "w") as f:
        f.write(f"---- MODULE {mod} ----\nEXTENDS MC_Bench\n" + "\n".join(constants(b)) + "\n====\n")
    cfg = ["SPECIFICATION MCSpec", "CONSTANTS", "  ModelSeq <- c_ModelSeq", "  Cap <- c_Cap", "  Prog <- c_Prog",
           "  Ports <- c_Ports", "  InitProg <- c_InitProg", "  Sinks <- c_Sinks", "  Procs <- c_Procs",
           f"  EmitFinal = {'TRUE' if emit else 'FALSE'}", "CHECK_DEADLOCK FALSE",
           "INVARIANTS", "  " + " ".join(BENCH_INVARIANTS + ["EmitOutcome"])]
    with open(os.path.join(workdir, mod + ".cfg"), "w") as f:
        f.write("\n".join(cfg) + "\n")
    return mod, mod + ".cfg"


if __name__ == "__main__":
    import sys
    from tla import OUT, run_tlc
    for name in sys.argv[1:] or sorted(BENCHES):
        b = BENCHES[name]
        wd = os.path.join(OUT, "mcb")
        mod, cfg = write_mc(b, wd)
        r = run_tlc(mod, cfg, wd, workers=8, timeout=900, tags=("OUTCOME",))
        outs = sorted(set(r.printed))
        print(name, "ok", r.ok, "distinct", r.distinct, "depth", r.depth, "wall %.1f" % r.wall, "outcomes", len(outs))
        if not r.ok:
            print(r.violation)
            print("\n".join(r.trace[:120]))
        for o in outs[:4]:
            print("   ", o[:300])
