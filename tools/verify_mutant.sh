#!/bin/bash
# Confirms a seeded change in its scratch worktree: demo fails with it, passes without it, suite passes with it.
# usage: verify_mutant.sh <worktree> <seed-id>
set -u
WT=$1; ID=$2
cd "$WT" || exit 2
DEMO=$(python3 -c "import json;print(json.load(open('_mutant/meta.json'))['demo_cmd'])")
echo "== demo with change (must fail)"
bash -c "$DEMO" > _mutant/demo_with.log 2>&1; W=$?
git stash push -q -- nexosim/src nexosim-util/src 2>/dev/null || git stash push -q -- nexosim/src
echo "== demo without change (must pass)"
bash -c "$DEMO" > _mutant/demo_without.log 2>&1; WO=$?
git stash pop -q
echo "== suite with change (demo moved aside)"
mkdir -p _mutant/aside
for f in nexosim/tests/mutant_demo*.rs; do [ -f "$f" ] && mv "$f" _mutant/aside/; done
cargo test --workspace --no-fail-fast --offline > _mutant/suite.log 2>&1
for f in _mutant/aside/*.rs; do [ -f "$f" ] && mv "$f" nexosim/tests/; done
FAILED=$(grep -E "^test .* FAILED" _mutant/suite.log | sed 's/ \.\.\. FAILED//' | tr '\n' ';')
echo "demo_with_rc=$W demo_without_rc=$WO suite_failed_non_demo=[$FAILED]"
mkdir -p /verif/seeded/$ID
cp _mutant/patch.diff /verif/seeded/$ID/patch.diff
for f in _mutant/*.rs; do cp "$f" /verif/seeded/$ID/; done
cp _mutant/meta.json /verif/seeded/$ID/agent_meta.json
echo "{\"demo_with_rc\": $W, \"demo_without_rc\": $WO, \"suite_failed_non_demo\": \"$FAILED\"}" > /verif/seeded/$ID/confirm.json
