#!/bin/bash
# Confirms a seeded change in its scratch worktree: demo fails with it, passes without it, suite passes with it.
# usage: verify_mutant.sh <worktree> <seed-id> [regex of the demonstration's own test names, excluded from the suite verdict]
set -u
WT=$1; ID=$2; EXCL=${3:-^\$}
cd "$WT" || exit 2
DEMO=$(python3 -c "import json;print(json.load(open('_mutant/meta.json'))['demo_cmd'])")
echo "== demo with change (must fail)"
bash -c "$DEMO" > _mutant/demo_with.log 2>&1; W=$?
# (no git stash: refs/stash is shared by all worktrees of a repository)
git diff -- nexosim/src nexosim-util/src > _mutant/current.diff
git apply -R _mutant/current.diff
echo "== demo without change (must pass)"
bash -c "$DEMO" > _mutant/demo_without.log 2>&1; WO=$?
git apply _mutant/current.diff
cmp -s _mutant/current.diff _mutant/patch.diff || echo "NOTE: worktree diff differs from patch.diff"
echo "== suite with change (demo moved aside)"
mkdir -p _mutant/aside
for f in nexosim/tests/mutant_demo*.rs; do [ -f "$f" ] && mv "$f" _mutant/aside/; done
cargo test --workspace --no-fail-fast --offline > _mutant/suite.log 2>&1
for f in _mutant/aside/*.rs; do [ -f "$f" ] && mv "$f" nexosim/tests/; done
FAILED=$(grep -E "^test .* FAILED" _mutant/suite.log | grep -v "^test result" | grep -Ev "$EXCL" | sed 's/ \.\.\. FAILED//' | tr '\n' ';')
echo "demo_with_rc=$W demo_without_rc=$WO suite_failed_non_demo=[$FAILED]"
mkdir -p /verif/seeded/$ID
cp _mutant/patch.diff /verif/seeded/$ID/patch.diff
for f in _mutant/*.rs; do cp "$f" /verif/seeded/$ID/; done
cp _mutant/meta.json /verif/seeded/$ID/agent_meta.json
echo "{\"demo_with_rc\": $W, \"demo_without_rc\": $WO, \"suite_failed_non_demo\": \"$FAILED\"}" > /verif/seeded/$ID/confirm.json
