"""TLC instances of Task.tla."""
import os

from tla import to_tla

INVARIANTS = ["Safe", "RefsExact", "RunnableConsistent", "NoLostWake", "NoLeak", "NoEarlyFree"]


def poll(ret, clone=False, selfwake=False):
    return dict(clone=clone, selfwake=selfwake, ret=ret)


SCRIPTS = {
    "pend_ready": [poll("pending", clone=True), poll("ready")],
    "selfwake": [poll("pending", clone=True, selfwake=True), poll("pending"), poll("ready")],
    "clone2": [poll("pending", clone=True), poll("pending", clone=True), poll("ready")],
    "ready": [poll("ready", clone=True)],
    "panic": [poll("pending", clone=True), poll("panic")],
    "never": [poll("pending", clone=True), poll("pending")],
}


def write_mc(name, script, threads, maxops, workdir, with_promise=True, sequential=False, emit=False):
    mod = f"MCt_{name}"
    os.makedirs(workdir, exist_ok=True)
    with open(os.path.join(workdir, mod + ".tla"), "w") as f:
        f.write(f"---- MODULE {mod} ----\nEXTENDS MC_Task\nc_Threads == {to_tla(set(threads))}\n"
                f"c_Script == {to_tla(script)}\n====\n")
    cfg = ["SPECIFICATION Spec", "CONSTANTS", "  Threads <- c_Threads", "  Script <- c_Script",
           f"  WithPromise = {'TRUE' if with_promise else 'FALSE'}", f"  MaxOps = {maxops}",
           f"  Sequential = {'TRUE' if sequential else 'FALSE'}", f"  Emit = {'TRUE' if emit else 'FALSE'}",
           "CHECK_DEADLOCK FALSE", "INVARIANTS", "  " + " ".join(INVARIANTS + ["EmitHist"])]
    with open(os.path.join(workdir, mod + ".cfg"), "w") as f:
        f.write("\n".join(cfg) + "\n")
    return mod, mod + ".cfg"


if __name__ == "__main__":
    import sys
    from tla import OUT, run_tlc
    wd = os.path.join(OUT, "mct")
    names = sys.argv[1:] or sorted(SCRIPTS)
    for n in names:
        for wp in (True, False):
            mod, cfg = write_mc(f"{n}_{int(wp)}", SCRIPTS[n], ["t1", "t2"], 6, wd, with_promise=wp)
            r = run_tlc(mod, cfg, wd, workers=12, timeout=900)
            print(n, wp, "ok", r.ok, "distinct", r.distinct, "depth", r.depth, "wall %.1f" % r.wall)
            if not r.ok:
                print(r.violation)
                print("\n".join(r.trace[:200]))
                sys.exit(1)
