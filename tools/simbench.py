"""Benches (model graphs + program tables) shared by SimCore's TLC configs and the Rust harness.

A bench is plain JSON.  Programs are sequences of ops in normal form (every field present):
  {"op": "nop|sched|cancel|send|panic|qself|sleep", "abs": bool, "d": int, "kind": "once|keyed|periodic|kperiodic",
   "per": int, "slot": "k1|k2|k3", "prog": int, "port": int}
"""
import json
import os

from tla import SPECS, to_tla, to_tla_fn


def op(name, abs=False, d=0, kind="once", per=0, slot="k1", prog=1, port=1):
    return {"op": name, "abs": abs, "d": d, "kind": kind, "per": per, "slot": slot, "prog": prog, "port": port}


NOP = op("nop")


def sched(d, prog=1, kind="once", per=0, slot="k1", abs=False):
    return op("sched", abs=abs, d=d, kind=kind, per=per, slot=slot, prog=prog)


def cancel(slot):
    return op("cancel", slot=slot)


def send(port, prog=1):
    return op("send", port=port, prog=prog)


def bcast(prog=1):
    return op("bcast", prog=prog)


BENCHES = {}


def bench(name, **kw):
    b = dict(name=name, models=["m1", "m2"], conn={"m1": ["m2"], "m2": ["m1"]}, srcconn=[["m1"], ["m1", "m2"]],
             tolerance=-1, timeout_on=False)
    b.update(kw)
    BENCHES[name] = b
    return b


def S(target, d, kind="once", per=0, slot="k1", prog=1, cls="ev", abs=False):
    """A driver scheduling command."""
    return dict(cls=cls, target=target, abs=abs, d=d, kind=kind, per=per, slot=slot, prog=prog)


def U(d, abs=False):
    return dict(abs=abs, d=d)


def P(target, prog=1, kind="event"):
    return dict(kind=kind, target=target, prog=prog)


def mc(MaxCmds=4, MaxTime=4, MaxQueue=3, sched=(), cancel=(), step=True, until=(), proc=(), lags=(0,),
       thorough=None):
    return dict(MaxCmds=MaxCmds, MaxTime=MaxTime, MaxQueue=MaxQueue, SchedCmds=list(sched),
                CancelSlots=list(cancel), StepOn=step, Untils=list(until), Procs=list(proc), Lags=list(lags),
                thorough=thorough or {})


# C01 / C07: chronological order, same-origin FIFO.  Handlers schedule follow-ups and send to the peer.
bench("chrono",
      prog=[[NOP],                              # 1: just fire
            [sched(1, prog=1), sched(1, prog=1)],  # 2: schedule two same-time follow-ups on self
            [send(1, prog=1)],                  # 3: forward to the peer
            [sched(0, prog=1), sched(2, prog=3)]],  # 4: invalid (now) request, then a later forward
      mc=mc(MaxCmds=4, MaxTime=4, MaxQueue=3,
            sched=[S("m1", 1), S("m1", 2, prog=2), S("m2", 1, prog=3), S("m1", 2, abs=True), S("m2", 0),
                   S("m1", 1, prog=4), S("m2", 1, kind="keyed")],
            cancel=["k1"],
            until=[U(0), U(1), U(2), U(1, abs=True)], proc=[P("m1", 2), P("m2", 3)],
            thorough=dict(MaxCmds=5)))

# C07: several same-deadline events of one origin, mixed kinds, two origins.
bench("fifo",
      prog=[[NOP],
            [sched(2, prog=1), sched(2, prog=4, kind="keyed", slot="k2"), sched(2, prog=1)],  # 2
            [sched(1, prog=1, kind="periodic", per=1), sched(2, prog=4)],                     # 3
            [NOP]],                                                                           # 4
      mc=mc(MaxCmds=5, MaxTime=4, MaxQueue=4,
            sched=[S("m1", 2), S("m1", 2, prog=4), S("m1", 2, kind="keyed", prog=4), S("m1", 1, kind="periodic", per=1),
                   S("m2", 2)],
            cancel=["k1"], until=[U(2)], proc=[P("m1", 2), P("m1", 3)],
            thorough=dict(MaxCmds=6)))

# C09: cancellation.
bench("cancel",
      prog=[[NOP],
            [cancel("k1")],                       # 2: cancel k1 (earlier event of the same time)
            [sched(1, prog=1, kind="keyed", slot="k2"), cancel("k1")],  # 3
            [sched(1, prog=1, kind="kperiodic", per=1, slot="k1")],      # 4
            [send(1, prog=2)]],                  # 5: ask the peer to cancel k1
      mc=mc(MaxCmds=4, MaxTime=4, MaxQueue=3,
            sched=[S("m1", 1, prog=2), S("m1", 1, kind="keyed"), S("m1", 2, kind="keyed", slot="k2"),
                   S("m1", 1, kind="kperiodic", per=1), S(1, 1, kind="keyed", cls="act"),
                   S(2, 1, kind="kperiodic", per=2, cls="act", slot="k2"), S("m2", 1, prog=5)],
            cancel=["k1", "k2"], until=[U(2)], proc=[P("m1", 3), P("m1", 4), P("m2", 5)],
            thorough=dict(MaxCmds=5)))

# C10: periodic series under every partition of the horizon.
bench("periodic",
      prog=[[NOP], [sched(1, prog=1, kind="periodic", per=2)]],
      mc=mc(MaxCmds=5, MaxTime=6, MaxQueue=2,
            sched=[S("m1", 1, kind="periodic", per=1), S("m1", 2, kind="periodic", per=2),
                   S("m1", 1, kind="periodic", per=3), S("m2", 3, kind="periodic", per=2),
                   S("m1", 1, kind="periodic", per=0), S("m1", 1, kind="kperiodic", per=2),
                   S("m2", 2, kind="kperiodic", per=1, slot="k2")],
            cancel=["k1", "k2"],
            until=[U(0), U(1), U(2), U(3)], proc=[P("m2", 2)],
            thorough=dict(MaxCmds=6, MaxTime=8)))

# C11: every fault kind, then follow-ups.
bench("faults",
      conn={"m1": ["m2", "DEAD", "ORPHAN"], "m2": ["m1", "DEAD", "ORPHAN"]},
      srcconn=[["m1"], ["m1", "DEAD"]],
      timeout_on=True,
      prog=[[NOP],
            [op("panic")],          # 2
            [send(2)],              # 3: NoRecipient from a model
            [send(3)],              # 4: message loss
            [op("qself")],          # 5: deadlock
            [op("sleep")],          # 6: timeout
            [send(1, prog=5)]],     # 7: make the peer deadlock
      mc=mc(MaxCmds=4, MaxTime=3, MaxQueue=2,
            sched=[S("m1", 1), S("m1", 1, prog=2), S("DEAD", 1), S("ORPHAN", 1), S(2, 1, cls="act"),
                   S("m1", 1, prog=7)],
            until=[U(1), U(0, abs=True)],
            proc=[P("m1", 1), P("m1", 2), P("m1", 3), P("m1", 4), P("m1", 5), P("m1", 6), P("m2", 7),
                  P("m1", 1, kind="query"), P("DEAD", 1, kind="query"), P("ORPHAN", 1, kind="query"),
                  P("DEAD", 1), P("ORPHAN", 1), P(2, 1, kind="action"), P(1, 2, kind="action")],
            thorough=dict(MaxCmds=5)))

# C18: clock synchronisation, scripted lags, with and without tolerance.
bench("clock", tolerance=1,
      prog=[[NOP], [sched(1, prog=1)]],
      mc=mc(MaxCmds=4, MaxTime=4, MaxQueue=2,
            sched=[S("m1", 1), S("m1", 2, prog=2), S("m2", 2)],
            until=[U(0), U(1), U(2)], proc=[P("m1", 2)], lags=[0, 1, 3],
            thorough=dict(MaxCmds=5)))
bench("clock_notol", tolerance=-1,
      prog=[[NOP], [sched(1, prog=1)]],
      mc=mc(MaxCmds=4, MaxTime=4, MaxQueue=2,
            sched=[S("m1", 1), S("m1", 2, prog=2)],
            until=[U(0), U(1), U(2)], proc=[P("m1", 2)], lags=[0, 3]))

# C08: validation matrix.
bench("validate",
      prog=[[NOP],
            [sched(0), sched(1, kind="periodic", per=0), sched(0, kind="kperiodic", per=0, slot="k2"),
             sched(1, abs=True), sched(2, abs=True)]],
      mc=mc(MaxCmds=3, MaxTime=3, MaxQueue=3,
            sched=[S(t, d, kind=k, per=p, cls=c, abs=a)
                   for (c, t) in (("ev", "m1"), ("act", 1))
                   for k in ("once", "keyed", "periodic", "kperiodic")
                   for p in ((0, 1) if k in ("periodic", "kperiodic") else (0,))
                   for (a, d) in ((False, 0), (False, 1), (True, 0), (True, 1), (True, 2))],
            until=[U(1)], proc=[P("m1", 2)],
            thorough=dict(MaxCmds=4)))


# C19: a flood through a small mailbox (senders suspended), a third model failing meanwhile.
bench("flood3", models=["m1", "m2", "m3"],
      conn={"m1": ["m2"], "m2": ["m1"], "m3": ["DEAD"]},
      srcconn=[["m1", "m3"], ["m1"]],
      prog=[[NOP],
            [send(1), send(1), send(1), send(1), send(1), send(1)],   # 2: at m1 floods m2; at m3 the send has no recipient
            [op("panic")]],                                             # 3
      mc=mc(MaxCmds=3, MaxTime=2, MaxQueue=2,
            sched=[S(1, 1, prog=2, cls="act"), S("m2", 1, prog=3)],
            until=[U(1)], proc=[P(1, 2, kind="action"), P(2, 2, kind="action"), P("m3", 3)]))


# C19: a chain of floods m4 -> m1 -> m2 through capacity-1 mailboxes, the end of the chain failing (m3 sends to a
# dropped mailbox): at the abort several senders are suspended on full mailboxes and a model task is queued.
bench("flood4", models=["m1", "m2", "m3", "m4"],
      conn={"m1": ["m2"], "m2": ["m3"], "m3": ["DEAD"], "m4": ["m1"]},
      srcconn=[["m4"]],
      prog=[[NOP],
            [send(1, prog=3), send(1, prog=3), send(1, prog=3), send(1, prog=3), send(1, prog=3), send(1, prog=3)],  # 2 (m4)
            [send(1, prog=4), send(1, prog=1), send(1, prog=1), send(1, prog=1)],   # 3 (m1): to m2
            [send(1, prog=5)],      # 4 (m2): to m3
            [send(1, prog=1)]],     # 5 (m3): no recipient
      mc=mc(MaxCmds=1, MaxTime=1, MaxQueue=1, sched=[], until=[], step=False, proc=[P(1, 2, kind="action")]))


# C19: a model suspended in the middle of a *broadcast* (two connections: the per-recipient send futures of the broadcast
# future hold the message clones) when another model fails; also with a deadlock (nobody fails, m2 queries itself).
bench("flood5", models=["m1", "m2", "m3", "m4"],
      conn={"m1": ["m2", "m3"], "m2": ["m4"], "m3": ["DEAD"], "m4": []},
      srcconn=[["m1"]],
      prog=[[NOP],
            [bcast(prog=3), bcast(prog=3), bcast(prog=3), bcast(prog=3), bcast(prog=3)],   # 2 (m1): broadcast to m2 and m3
            [send(1, prog=1)],      # 3: at m2 forwards to m4; at m3 the send has no recipient (failure)
            [NOP]],
      mc=mc(MaxCmds=1, MaxTime=1, MaxQueue=1, sched=[], until=[], step=False, proc=[P(1, 2, kind="action")]))


def bench_constants(b):
    """TLA+ definitions of the bench constants (shared by MC and trace modules)."""
    lines = []
    lines.append(f"c_ModelSeq == {to_tla(b['models'])}")
    lines.append(f"c_Prog == {to_tla(b['prog'])}")
    lines.append(f"c_Conn == {to_tla_fn(b['conn'])}")
    lines.append(f"c_SrcConn == {to_tla(b['srcconn'])}")
    lines.append(f"c_Tolerance == {b['tolerance']}")
    return lines


def write_mc_module(b, workdir, emit=False, overrides=None):
    """Writes MCc_<bench>.tla/.cfg into workdir; returns (module, cfg)."""
    name = b["name"]
    mcc = dict(b["mc"])
    if overrides:
        mcc.update(overrides)
    mod = f"MCc_{name}"
    lines = [f"---- MODULE {mod} ----", "EXTENDS MC_SimCore"] + bench_constants(b)

    def recset(rs):
        return "{" + ", ".join(to_tla(r) for r in rs) + "}"
    lines.append(f"c_SchedCmds == {recset(mcc['SchedCmds'])}")
    lines.append(f"c_CancelSlots == {to_tla(set(mcc['CancelSlots']))}")
    lines.append(f"c_Untils == {recset(mcc['Untils'])}")
    lines.append(f"c_Procs == {recset(mcc['Procs'])}")
    lines.append(f"c_Lags == {to_tla(set(mcc['Lags']))}")
    lines.append("====")
    os.makedirs(workdir, exist_ok=True)
    with open(os.path.join(workdir, mod + ".tla"), "w") as f:
        f.write("\n".join(lines) + "\n")
    cfg = ["SPECIFICATION MCSpec", "CONSTANTS",
           "  ModelSeq <- c_ModelSeq", "  Prog <- c_Prog", "  Conn <- c_Conn", "  SrcConn <- c_SrcConn",
           "  Tolerance <- c_Tolerance", f"  TimeoutOn = {'TRUE' if b['timeout_on'] else 'FALSE'}",
           f"  MaxCmds = {mcc['MaxCmds']}", f"  MaxTime = {mcc['MaxTime']}", f"  MaxQueue = {mcc['MaxQueue']}",
           "  SchedCmds <- c_SchedCmds", "  CancelSlots <- c_CancelSlots", "  Untils <- c_Untils",
           "  Procs <- c_Procs", "  Lags <- c_Lags",
           f"  StepOn = {'TRUE' if mcc['StepOn'] else 'FALSE'}"]
    cfg.append(f"  Emit = {'TRUE' if emit else 'FALSE'}")
    cfg += ["CONSTRAINT Bounded", "CHECK_DEADLOCK FALSE", "INVARIANTS",
            "  PendingStrictlyFuture FiresAtDeadline ChronologicalOrder StepPost ExactFirings",
            "  ScheduleValidated SameOriginFifo NoFireAfterCancel CancelIsLocal TerminatedSticky",
            "  NonFatalKeepsUsable SyncMonotone SyncBeforeCompute SyncCoversNow SyncOncePerNewTime OutOfSyncGates",
            "  EmitBehaviour", "PROPERTIES TimeMonotone"]
    cfgname = mod + ".cfg"
    with open(os.path.join(workdir, cfgname), "w") as f:
        f.write("\n".join(cfg) + "\n")
    return mod, cfgname


if __name__ == "__main__":
    import sys
    from tla import OUT, run_tlc
    b = BENCHES[sys.argv[1]]
    wd = os.path.join(OUT, "mc_" + b["name"])
    mod, cfg = write_mc_module(b, wd, emit=len(sys.argv) > 2)
    r = run_tlc(mod, cfg, wd, workers=int(os.environ.get("W", "8")), timeout=1800)
    print("ok", r.ok, "gen", r.generated, "distinct", r.distinct, "depth", r.depth, "wall %.1f" % r.wall,
          "behaviours", len(r.printed))
    if not r.ok:
        print(r.violation)
        print("\n".join(r.trace[:200]))
