"""Plumbing between Python, TLC and the TLA+ modules of /verif/specs."""
import json
import os
import re
import shutil
import subprocess
import time

VERIF = os.path.dirname(os.path.dirname(os.path.abspath(__file__)))
SPECS = os.path.join(VERIF, "specs")
OUT = os.path.join(VERIF, "out")
JAR = "/opt/veriftools/tla/tla2tools.jar"
CM_JAR_DIRS = ["/opt/veriftools/tla"]


class ToolError(Exception):
    """TLC / Java / cargo failed for a reason unrelated to the property (exit code 2)."""


def to_tla(v):
    """JSON value -> TLA+ expression."""
    if isinstance(v, bool):
        return "TRUE" if v else "FALSE"
    if isinstance(v, int):
        return str(v)
    if isinstance(v, str):
        return json.dumps(v)
    if isinstance(v, (list, tuple)):
        return "<<" + ", ".join(to_tla(x) for x in v) + ">>"
    if isinstance(v, (set, frozenset)):
        return "{" + ", ".join(to_tla(x) for x in sorted(v, key=lambda x: (str(type(x)), x))) + "}"
    if isinstance(v, dict):
        if not v:
            return "<<>>"
        if all(re.fullmatch(r"[A-Za-z_][A-Za-z0-9_]*", k) for k in v):
            return "[" + ", ".join(f"{k} |-> {to_tla(x)}" for k, x in v.items()) + "]"
        return "(" + " @@ ".join(f"{json.dumps(k)} :> {to_tla(x)}" for k, x in v.items()) + ")"
    raise TypeError(v)


class StrKeyFn(dict):
    """A dict that must be rendered as a function with string keys (k :> v @@ ...)."""


def to_tla_fn(d):
    return "(" + " @@ ".join(f"{json.dumps(k)} :> {to_tla(x)}" for k, x in d.items()) + ")"


def classpath():
    cp = [JAR]
    for d in CM_JAR_DIRS:
        if os.path.isdir(d):
            for f in sorted(os.listdir(d)):
                if f.endswith(".jar") and os.path.join(d, f) != JAR:
                    cp.append(os.path.join(d, f))
    return ":".join(cp)


_STATS = re.compile(r"(\d+) states generated, (\d+) distinct states found, (\d+) states left on queue")
_DEPTH = re.compile(r"The depth of the complete state graph search is (\d+)")


class TlcResult:
    def __init__(self):
        self.generated = 0
        self.distinct = 0
        self.left = 0
        self.depth = 0
        self.ok = False
        self.violation = None  # text of the violated invariant / property
        self.trace = []  # counterexample text lines
        self.output = ""
        self.wall = 0.0
        self.printed = []  # lines printed by PrintT that start with a tag
        self.coverage = {}


def run_tlc(module, cfg, workdir, workers=8, timeout=900, simulate=None, depth=None, extra_java=None,
            env_extra=None, dfs=False, heap="6g", coverage=False, tags=("BEHAVIOUR",), seed=None,
            deadlock=False, metaname=None):
    """Runs TLC on workdir/module.tla with workdir/cfg. The spec directory is on the library path."""
    os.makedirs(workdir, exist_ok=True)
    meta = os.path.join(workdir, "states_" + (metaname or os.path.splitext(os.path.basename(cfg))[0]))
    shutil.rmtree(meta, ignore_errors=True)
    tmpd = os.path.join(OUT, "tmp")
    os.makedirs(tmpd, exist_ok=True)
    java = ["java", "-XX:+UseParallelGC", f"-Xmx{heap}", "-Xss512m", f"-DTLA-Library={SPECS}",
            f"-Djava.io.tmpdir={tmpd}"]
    if dfs:
        java.append("-Dtlc2.tool.queue.IStateQueue=StateDeque")
    if extra_java:
        java += extra_java
    cmd = java + ["-cp", classpath(), "tlc2.TLC", "-workers", str(workers), "-metadir", meta, "-cleanup",
                  "-noGenerateSpecTE", "-config", cfg]
    if coverage:
        cmd += ["-coverage", "1"]
    if simulate is not None:
        cmd += ["-simulate", f"num={simulate}"]
        if depth:
            cmd += ["-depth", str(depth)]
        if seed is not None:
            cmd += ["-seed", str(seed)]
    if deadlock:
        cmd += ["-deadlock"]
    cmd.append(module)
    env = dict(os.environ)
    env.pop("JAVA_TOOL_OPTIONS", None)
    if env_extra:
        env.update(env_extra)
    t0 = time.time()
    try:
        p = subprocess.run(cmd, cwd=workdir, env=env, stdout=subprocess.PIPE, stderr=subprocess.STDOUT,
                           timeout=timeout, text=True, errors="replace")
    except subprocess.TimeoutExpired as e:
        shutil.rmtree(meta, ignore_errors=True)
        raise ToolError(f"TLC timed out after {timeout}s on {module}/{cfg}") from e
    res = TlcResult()
    res.wall = time.time() - t0
    res.output = p.stdout
    shutil.rmtree(meta, ignore_errors=True)
    for m in _STATS.finditer(p.stdout):
        res.generated, res.distinct, res.left = int(m.group(1)), int(m.group(2)), int(m.group(3))
    m = _DEPTH.search(p.stdout)
    if m:
        res.depth = int(m.group(1))
    for line in p.stdout.splitlines():
        for tag in tags:
            k = line.find('<<"' + tag + '"')
            if k >= 0:
                res.printed.append(line[k:])
    if "Model checking completed. No error has been found." in p.stdout or \
            (simulate is not None and p.returncode == 0):
        res.ok = True
    elif re.search(r"Error: Invariant (\S+) is violated", p.stdout) or \
            "Error: Action property" in p.stdout or "is violated" in p.stdout:
        m = re.search(r"Error: (Invariant \S+ is violated|Action property \S+ is violated[^\n]*|[^\n]*is violated[^\n]*)",
                      p.stdout)
        res.violation = m.group(1) if m else "violated"
        k = p.stdout.find("Error:")
        res.trace = p.stdout[k:].splitlines()
    elif re.search(r"Error: Temporal propert(y \S+ was|ies were) violated", p.stdout):
        res.violation = re.search(r"Error: (Temporal propert[^\n.]*violated)", p.stdout).group(1)
        k = p.stdout.find("Error:")
        res.trace = p.stdout[k:].splitlines()
    elif "Error: Deadlock reached" in p.stdout:
        res.violation = "Deadlock reached"
        k = p.stdout.find("Error:")
        res.trace = p.stdout[k:].splitlines()
    elif re.search(r"Error: Postcondition \S+ .* is false", p.stdout):
        res.violation = "postcondition"
    else:
        raise ToolError(f"TLC failed on {module}/{cfg} (exit {p.returncode}):\n" + p.stdout[-4000:])
    return res


def parse_printed(line):
    """<<"TAG", "json...">> printed by PrintT -> python value of the JSON string."""
    m = re.match(r'<<"(\w+)", (".*")>>\s*$', line)
    if not m:
        raise ToolError("cannot parse printed line: " + line[:200])
    # TLC prints the string with TLA+ escapes, which for our JSON payloads coincide with JSON escapes
    inner = json.loads(m.group(2))
    return m.group(1), json.loads(inner)


def sany(path):
    p = subprocess.run(["java", f"-DTLA-Library={SPECS}", "-cp", classpath(), "tla2sany.SANY", path],
                       cwd=os.path.dirname(path), stdout=subprocess.PIPE, stderr=subprocess.STDOUT, text=True)
    ok = p.returncode == 0 and "Semantic errors" not in p.stdout and "***Parse Error***" not in p.stdout \
        and "Fatal errors" not in p.stdout
    return ok, p.stdout


SPURIOUS = []   # rejections that a fresh TLC process did not reproduce (reported in the evidence notes)


def confirm_rejection(mod, cfg, workdir, tag, run, first, write_event=None, heap="3g", timeout=900):
    """A trace that TLC rejects inside a concatenation of runs is validated again, alone, by a fresh TLC process.
    An acceptance cannot be spurious (TLC has found a matching behaviour); a rejection that is not reproduced is the
    tool's, not the code's: the run counts as accepted, both TLC outputs are kept under out/spurious for diagnosis.
    Returns True if the rejection is reproduced."""
    import json
    path = os.path.join(workdir, f"{tag}_confirm.ndjson")
    with open(path, "w") as f:
        for e in run:
            f.write(json.dumps(write_event(e) if write_event else e) + "\n")
    res = run_tlc(mod, cfg, workdir, workers=1, timeout=timeout, dfs=True, heap=heap, env_extra={"TRACE": path},
                  tags=("TRACE_REJECTED",), metaname=tag + "_confirm")
    if not res.ok:
        os.remove(path)
        return True
    d = os.path.join(OUT, "spurious")
    os.makedirs(d, exist_ok=True)
    k = len(os.listdir(d))
    shutil.copy(path, os.path.join(d, f"{k}_{tag}.ndjson"))
    with open(os.path.join(d, f"{k}_{tag}.first.txt"), "w") as f:
        f.write(first.output[-20000:] if first is not None else "")
    os.remove(path)
    SPURIOUS.append(tag)
    return False
