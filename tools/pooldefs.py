"""Scenarios (task scripts) for Pool.tla and for the pool engine of the harness; TLC instances."""
import os

from tla import to_tla

INVARIANTS = ["OkMeansQuiescent", "CountExact", "NoStrandedRun", "DropReturns", "BusyIsActive", "OnePlace",
              "SearchingSane", "NoDropOutsideWorker", "DeactAssert"]


def P(*eff, ready=False):
    return dict(eff=[list(e) for e in eff], ready=ready)


def wake(u):
    return ("wake", u)


def msg(d):
    return ("msg", d)


PANIC = ("panic", 0)

# name -> dict(scripts={task: [polls]}, runs=[[tasks spawned before run k]])
SCENARIOS = {
    # a second run wakes three suspended tasks from one poll: LIFO slot, local queue, sibling activation, stealing
    "burst": dict(scripts={1: [P(wake(2), wake(3), wake(4), ready=True)],
                           2: [P(), P(msg(1), ready=True)],
                           3: [P(), P(msg(-1), ready=True)],
                           4: [P(), P(ready=True)]},
                  runs=[[2, 3, 4], [1]]),
    # tasks waking each other while queued, suspended or being polled (re-poll loop)
    "pingpong": dict(scripts={1: [P(), P(wake(2)), P(ready=True)],
                              2: [P(wake(1)), P(wake(1), ready=True)],
                              3: [P(wake(3)), P(wake(1), wake(2), ready=True)]},
                     runs=[[1, 2, 3]]),
    # message accounting: sends and receives on different workers, one message left over
    "msgs": dict(scripts={1: [P(msg(1), msg(1), wake(2), ready=True)],
                          2: [P(), P(msg(-1), ready=True)],
                          3: [P(msg(1), ready=True)],
                          4: [P(msg(-1), ready=True)]},
                 runs=[[3, 4], [2, 1]]),
    # all messages received: the count must be exactly zero whoever folds last
    "balanced": dict(scripts={1: [P(msg(1), wake(2), msg(1), wake(3), ready=True)],
                              2: [P(), P(msg(-1), ready=True)],
                              3: [P(), P(msg(-1), ready=True)]},
                     runs=[[2, 3], [1]]),
    # a panic while other tasks are queued on the same worker
    "panic": dict(scripts={1: [P(wake(2), wake(3), PANIC)],
                           2: [P(), P(ready=True)],
                           3: [P(), P(wake(2), ready=True)]},
                  runs=[[2, 3], [1]]),
    # more wake-ups from one poll than the local queue holds: half-queue buckets pushed to the injector while siblings pop
    "overflow": dict(scripts={1: [P(wake(2), wake(3), wake(4), wake(5), wake(6), ready=True)],
                              2: [P(), P(ready=True)], 3: [P(), P(ready=True)], 4: [P(), P(ready=True)],
                              5: [P(), P(ready=True)], 6: [P(), P(ready=True)]},
                     runs=[[2, 3, 4, 5, 6], [1]], local_cap=2, bucket_cap=1),
    # a chain of wake-ups across three runs
    "chain": dict(scripts={1: [P(), P(wake(2), ready=True)],
                           2: [P(), P(wake(3)), P(ready=True)],
                           3: [P(), P(wake(2), ready=True)],
                           4: [P(wake(1), ready=True)]},
                  runs=[[1, 2, 3], [4]]),
}


def write_mc(name, scen, nw, workdir, fold_first=True, recheck=True, hand_over=True, drop_after=True, invariants=None,
             emit=False, flag_under_lock=True, local_cap=None, bucket_cap=None):
    mod = f"MCp_{name}_{nw}"
    os.makedirs(workdir, exist_ok=True)
    tasks = sorted(scen["scripts"])
    script = "[t \\in c_Tasks |-> " + " ".join(
        f"{'IF' if i == 0 else 'ELSE IF'} t = {t} THEN {to_tla(scen['scripts'][t])}" for i, t in enumerate(tasks)) + \
        " ELSE <<>>]"
    runs = "<<" + ", ".join(to_tla(set(r)) for r in scen["runs"]) + ">>"
    with open(os.path.join(workdir, mod + ".tla"), "w") as f:
        f.write(f"---- MODULE {mod} ----\nEXTENDS Pool\nc_Tasks == {to_tla(set(tasks))}\nc_Script == {script}\n"
                f"c_Runs == {runs}\n====\n")
    b = lambda x: "TRUE" if x else "FALSE"
    cfg = ["SPECIFICATION Spec", "CONSTANTS", f"  NW = {nw}", "  Tasks <- c_Tasks", "  Script <- c_Script",
           "  Runs <- c_Runs", f"  FoldFirst = {b(fold_first)}", f"  Recheck = {b(recheck)}", f"  HandOver = {b(hand_over)}",
           f"  DropAfter = {b(drop_after)}", f"  FlagUnderLock = {b(flag_under_lock)}",
           f"  LocalCap = {local_cap or scen.get('local_cap', 8)}", f"  BucketCap = {bucket_cap or scen.get('bucket_cap', 4)}",
           "CHECK_DEADLOCK FALSE", "INVARIANTS",
           "  " + " ".join(invariants if invariants is not None else INVARIANTS)]
    with open(os.path.join(workdir, mod + ".cfg"), "w") as f:
        f.write("\n".join(cfg) + "\n")
    return mod, mod + ".cfg"


if __name__ == "__main__":
    import sys
    from tla import OUT, run_tlc
    wd = os.path.join(OUT, "mcp")
    nw = int(sys.argv[1]) if len(sys.argv) > 1 else 2
    names = sys.argv[2:] or sorted(SCENARIOS)
    for n in names:
        mod, cfg = write_mc(n, SCENARIOS[n], nw, wd)
        r = run_tlc(mod, cfg, wd, workers=12, timeout=1800)
        print(n, nw, "ok", r.ok, "distinct", r.distinct, "depth", r.depth, "wall %.1f" % r.wall, flush=True)
        if not r.ok:
            print(r.violation)
            print("\n".join(r.trace[:400]))
            sys.exit(1)
