"""C12: the mailbox queue (MpscQueue.tla): TLC on all interleavings of atomic steps, sequential histories
replayed on the real queue, concurrent executions of real threads validated against the atomic-step specification."""
import json
import os
import random
import subprocess

import orderings
import queuedefs
from framework import HARNESS, TRUSTED, Check
from tla import OUT, ToolError, parse_printed, run_tlc, confirm_rejection


def harness(inp, wd, tag):
    os.makedirs(wd, exist_ok=True)
    ip = os.path.join(wd, tag + ".in.json")
    op = os.path.join(wd, tag + ".out.ndjson")
    with open(ip, "w") as f:
        json.dump(inp, f)
    p = subprocess.run([HARNESS, "queue", ip, op], stdout=subprocess.PIPE, stderr=subprocess.PIPE, text=True,
                       env=dict(os.environ, RUST_BACKTRACE="0"), timeout=600)
    if p.returncode != 0:
        raise ToolError("harness queue failed: " + p.stderr[-2000:])
    with open(op) as f:
        lines = [json.loads(ln) for ln in f if ln.strip()]
    os.remove(ip)
    os.remove(op)
    return lines


def validate_traces(cap, producers, runs, wd, tag):
    """runs: list of event lists (each starting with reset).  Returns (accepted, rejections [(run, idx, event)], stats)."""
    mod = f"Trq_{tag}"
    with open(os.path.join(wd, mod + ".tla"), "w") as f:
        f.write(f"---- MODULE {mod} ----\nEXTENDS MpscQueue_Trace\nc_Producers == "
                "{" + ", ".join(json.dumps(p) for p in producers) + "}\n"
                "c_ProdOps == [p \\in c_Producers |-> <<>>]\nc_ConsOps == <<>>\n====\n")
    with open(os.path.join(wd, mod + ".cfg"), "w") as f:
        f.write("SPECIFICATION TraceSpec\nCONSTANTS\n  Cap = %d\n  Producers <- c_Producers\n  ProdOps <- c_ProdOps\n"
                "  ConsOps <- c_ConsOps\n  Sequential = FALSE\n  FreeOps = TRUE\n  MaxOps = 0\n  Nested = FALSE\n"
                "CONSTRAINT Track\nPOSTCONDITION TraceAccepted\nCHECK_DEADLOCK FALSE\n"
                "INVARIANTS\n  %s\n" % (cap, " ".join(i for i in queuedefs.INVARIANTS if i != "LenWhenQuiescent")))
    stats = dict(states=0, transitions=0, wall=0.0, events=0)
    rejections, accepted = [], 0
    remaining = list(runs)
    rnd = 0
    while remaining and len(rejections) < 5:
        rnd += 1
        path = os.path.join(wd, f"{tag}_v{rnd}.ndjson")
        with open(path, "w") as f:
            for r in remaining:
                for e in r:
                    f.write(json.dumps(e) + "\n")
        res = run_tlc(mod, mod + ".cfg", wd, workers=1, timeout=900, dfs=True, heap="4g", env_extra={"TRACE": path},
                      tags=("TRACE_REJECTED",), metaname=tag)
        stats["states"] += res.distinct
        stats["transitions"] += res.generated
        stats["wall"] += res.wall
        os.remove(path)
        if res.ok:
            accepted += len(remaining)
            stats["events"] += sum(len(r) for r in remaining)
            break
        if res.violation and res.violation.startswith("Invariant"):
            ls = [ln for ln in res.trace if ln.startswith("/\\ l = ")]
            n = int(ls[-1].split("=")[1]) - 2 if ls else 0
            reason = "invariant:" + res.violation.split()[1]

        elif res.printed:
            n = int(res.printed[-1].split(",")[1].strip())
            reason = "unmatched"
        else:
            raise ToolError("unexpected TLC outcome: %s\n%s" % (res.violation, res.output[-2000:]))
        pos = 0
        for i, r in enumerate(remaining):
            if n < pos + len(r):
                accepted += i
                remaining = remaining[i + 1:]
                if confirm_rejection(mod, mod + ".cfg", wd, tag, r, res, heap="4g"):
                    rejections.append((r, n - pos, r[n - pos] if n - pos < len(r) else None, reason))
                else:
                    accepted += 1
                break
            pos += len(r)
        else:
            raise ToolError("rejection index outside the trace")
    return accepted, rejections, stats


def split_resets(lines):
    runs = []
    for e in lines:
        if e.get("ev") == "reset":
            runs.append([e])
        else:
            runs[-1].append(e)
    return runs


def run(tier, seed):
    chk = Check("C12", tier, seed)
    rng = random.Random(seed)
    thorough = tier == "thorough"
    wd = os.path.join(OUT, f"C12_{tier}")
    # 0. B4: the memory orderings and the program order of publication, read from queue.rs, instantiate QueueRA.tla
    #    (release/acquire memory model): data-race freedom of the message cells, FIFO / exactly-once
    try:
        ra_consts = orderings.extract_queue()
        skeleton_error = None
    except ToolError as e:
        ra_consts, skeleton_error = None, str(e)
    if ra_consts:
        # vacuity: with these constants some behaviour must take a message from a re-used slot (second lap)
        mod, cfg = queuedefs.write_ra("vac", ra_consts, 1, ["p1", "p2"], 2, 4, wd, invariants=["NeverSecondLap"])
        res = run_tlc(mod, cfg, wd, workers=6, timeout=1200)
        if res.ok:
            raise ToolError("QueueRA.tla: no behaviour re-uses a slot (vacuous instance)")
        for (name, cap, prods, npush, npop) in queuedefs.RA_QUICK + (queuedefs.RA_THOROUGH if thorough else []):
            mod, cfg = queuedefs.write_ra(name, ra_consts, cap, prods, npush, npop, wd)
            res = run_tlc(mod, cfg, wd, workers=14, timeout=3000)
            chk.add_tlc(f"QueueRA[{name}: cap {cap}, {len(prods)} producers x {npush} pushes, {npop} pops] with the "
                        f"orderings of the source", res)
            if not res.ok:
                with open(os.path.join(wd, f"counterexample_{name}.txt"), "w") as f:
                    f.write("\n".join(res.trace))
                why = next((ln.strip() for ln in reversed(res.trace) if ln.startswith("/\\ bad = ") and '"no"' not in ln), "")
                chk.violation(f"with the memory orderings / publication order found in channel/queue.rs {ra_consts} the "
                              f"release/acquire specification QueueRA.tla violates {res.violation} {why} (instance {name}): "
                              f"a message cell is accessed by a thread that is not entitled to see its latest write",
                              dict(engine="queue_ra", orderings=ra_consts, instance=name, counterexample=res.trace[-120:]),
                              signature=f"ra:{json.dumps(ra_consts, sort_keys=True)}")
                break
        chk.sample(dict(kind="orderings extracted from channel/queue.rs", orderings=ra_consts))
    # 1. all interleavings of the atomic steps
    insts = queuedefs.CONCURRENT + (queuedefs.THOROUGH if thorough else [])
    for (name, cap, po, co) in insts:
        mod, cfg = queuedefs.write_mc(name, cap, po, co, wd)
        res = run_tlc(mod, cfg, wd, workers=14, timeout=3000)
        chk.add_tlc(f"MpscQueue[{name}: cap {cap}, {len(po)} producers]", res)
        if not res.ok:
            raise ToolError(f"MpscQueue instance {name} violates {res.violation}:\n" + "\n".join(res.trace[:80]))
    # 2. every sequential history up to a length bound, replayed on the real queue
    maxops = 6 if thorough else 5
    for cap in ((1, 2, 3, 4) if thorough else (1, 2, 3)):
        name = f"seq_c{cap}"
        mod, cfg = queuedefs.write_mc(name, cap, {"p1": [], "p2": []}, [], wd, sequential=True, freeops=True,
                                      maxops=maxops, emit=True)
        res = run_tlc(mod, cfg, wd, workers=14, timeout=3000)
        chk.add_tlc(f"MpscQueue sequential histories [cap {cap}, {maxops} ops]", res)
        if not res.ok:
            raise ToolError(f"MpscQueue sequential instance violates {res.violation}")
        beh = [parse_printed(ln)[1] for ln in res.printed]
        got = harness(dict(mode="seq", capacity=cap, producers=["p1", "p2"],
                           behaviours=[[dict(t=o["t"], op=o["op"]) for o in b] for b in beh]), wd, name)
        bad = 0
        for b, g in zip(beh, got):
            exp = [o["ret"] for o in b]
            if exp != g:
                k = next((i for i in range(len(exp)) if i >= len(g) or exp[i] != g[i]), 0)
                if bad < 3:
                    chk.violation(f"queue of capacity {cap}: operation #{k + 1} {b[k]['t']}.{b[k]['op']} returned "
                                  f"{g[k] if k < len(g) else g} but MpscQueue.tla requires {exp[k]}; history "
                                  f"{[(o['t'], o['op']) for o in b]}",
                                  dict(engine="queue", capacity=cap, ops=[dict(t=o["t"], op=o["op"]) for o in b],
                                       expected=exp, observed=g),
                                  signature=f"seq:{cap}:{json.dumps([(o['t'], o['op']) for o in b])}")
                bad += 1
        chk.traces += len(beh)
        chk.evaluations += len(beh)
        if beh:
            chk.sample(dict(kind="sequential history", capacity=cap, history=beh[len(beh) // 2]))
    # 2b. the same with one push suspended in flight (between the reservation of its cell and its publication)
    #     while other operations run: on the real queue those operations are executed from inside the push's
    #     message closure, which the queue calls exactly in that window
    nmax = 5 if thorough else 4
    for cap in (1, 2, 3):
        name = f"nest_c{cap}"
        mod, cfg = queuedefs.write_mc(name, cap, {"p1": [], "p2": []}, [], wd, sequential=True, freeops=True,
                                      maxops=nmax, emit=True, nested=True)
        res = run_tlc(mod, cfg, wd, workers=14, timeout=3000)
        chk.add_tlc(f"MpscQueue histories with an in-flight push [cap {cap}, {nmax} ops]", res)
        if not res.ok:
            raise ToolError(f"MpscQueue nested instance violates {res.violation}")
        beh = [b for b in (parse_printed(ln)[1] for ln in res.printed) if any(o["inn"] for o in b)]
        got = harness(dict(mode="seq", capacity=cap, producers=["p1", "p2"],
                           behaviours=[[dict(t=o["t"], op=o["op"], inn=o["inn"]) for o in b] for b in beh]), wd, name)
        bad = 0
        for b, g in zip(beh, got):
            exp = [o["ret"] for o in b]
            if exp != g:
                k = next((i for i in range(len(exp)) if i >= len(g) or exp[i] != g[i]), 0)
                if bad < 3:
                    desc = [(o["t"], o["op"], "during push of " + o["inn"] if o["inn"] else "") for o in b]
                    chk.violation(f"queue of capacity {cap}: operation #{k + 1} {b[k]['t']}.{b[k]['op']} returned "
                                  f"{g[k] if k < len(g) else g} but MpscQueue.tla requires {exp[k]}; history {desc}",
                                  dict(engine="queue", capacity=cap,
                                       ops=[dict(t=o["t"], op=o["op"], inn=o["inn"]) for o in b], expected=exp, observed=g),
                                  signature=f"nest:{cap}:{json.dumps(desc)}")
                bad += 1
        chk.traces += len(beh)
        chk.evaluations += len(beh)
        if beh:
            chk.sample(dict(kind="history with an in-flight push", capacity=cap, history=beh[len(beh) // 2]))
    # 3. real threads: the programs of the TLC instances and random ones, many repetitions
    rep = 300 if thorough else 60
    for (name, cap, po, co) in insts:
        progs = [dict({p: [o["op"] for o in ops] for p, ops in po.items()}, cons=[o["op"] for o in co])]
        for _ in range(6 if thorough else 2):
            pr = {}
            for p in po:
                pr[p] = [rng.choice(["push", "push", "push", "len", "close"] if rng.random() < 0.3 else ["push"])
                         for _ in range(rng.randint(1, 3))]
            cons = []
            for _ in range(rng.randint(2, 5)):
                cons += ["pop", "release"]
            if rng.random() < 0.3:
                cons.insert(rng.randrange(len(cons)), "len")
            pr["cons"] = cons
            progs.append(pr)
        lines = harness(dict(mode="conc", capacity=cap, producers=sorted(po), programs=progs, repeat=rep), wd,
                        "conc_" + name)
        runs = split_resets(lines)
        acc, rej, st = validate_traces(cap, sorted(po), runs, wd, "conc_" + name)
        chk.add_trace_stats(f"real threads [{name}]", acc + len(rej), st)
        chk.evaluations += len(runs)
        for (r, k, ev, reason) in rej:
            chk.violation(f"concurrent execution on the real queue (capacity {cap}) is not linearisable w.r.t. "
                          f"MpscQueue.tla: {reason} at event {k}: {json.dumps(ev)}",
                          dict(engine="queue", capacity=cap, trace=r[:k + 1]),
                          signature=f"conc:{cap}:{reason}:{json.dumps(ev)}")
        if runs:
            chk.sample(dict(kind="concurrent execution", capacity=cap, trace=runs[len(runs) // 2][:20]))
    # 3b. larger capacities (odd, even but not a power of two, powers of two) over several laps of the ring: one producer
    #     thread and the consumer thread, validated by trace validation only
    for cap in ((5, 6, 7, 10, 12, 16) if thorough else (5, 6, 10)):
        n = 3 * cap + 2
        progs = [dict(p1=["push"] * n, cons=["pop", "release"] * n + ["len"]),
                 dict(p1=["push"] * cap + ["len"] + ["push"] * cap, p2=["push"] * (cap // 2),
                      cons=["pop", "release"] * (2 * cap + cap // 2))]
        for prog in progs:
            prods = sorted(k for k in prog if k != "cons")
            lines = harness(dict(mode="conc", capacity=cap, producers=prods, programs=[prog], repeat=4 if thorough else 2),
                            wd, f"long_{cap}")
            runs = split_resets(lines)
            acc, rej, st = validate_traces(cap, prods, runs, wd, f"long_{cap}_{len(prods)}")
            chk.add_trace_stats(f"real threads, several laps [capacity {cap}, {len(prods)} producer(s)]", acc + len(rej), st)
            chk.evaluations += len(runs)
            for (r, k, ev, reason) in rej:
                chk.violation(f"execution on the real queue (capacity {cap}, several laps of the ring) is not linearisable "
                              f"w.r.t. MpscQueue.tla: {reason} at event {k}: {json.dumps(ev)}",
                              dict(engine="queue", capacity=cap, trace=r[:k + 1][-60:]),
                              signature=f"long:{cap}:{reason}:{json.dumps(ev)}")
    # the wake-up protocol of the channel built on the queue: Channel.tla, every history of future polls replayed
    import check_chan
    check_chan.channel_part(chk, thorough, wd)
    if skeleton_error and not chk.violations:
        # the atomic operations of queue.rs are no longer those QueueRA.tla was written for and nothing else objected
        raise ToolError(skeleton_error)
    chk.exhaustive = True
    chk.assumptions = TRUSTED + [
        "MpscQueue.tla has interleaving (sequentially consistent) semantics; the memory orderings are decided on QueueRA.tla, "
        "a view-based release/acquire model without load buffering whose stores append to the modification order, "
        "instantiated with the orderings and the publication order read from queue.rs by pattern matching (a shape the "
        "extractor does not recognise is reported as a tool error, exit 2); close() is not part of QueueRA.tla",
        "the wake-up protocol of Sender::send / Receiver::recv is specified at the granularity of one poll of a future "
        "(Channel.tla: async-event and diatomic-waker by their sequential contract, read from their sources) and replayed "
        "by one thread; its concurrent interleavings are exercised end to end by the Bench checks (a lost wake-up stalls "
        "a run that the specification completes), not enumerated",
    ]
    return chk.finish(rule="TLC explores every interleaving of the atomic steps of push/pop/release/close/len for the listed "
                           "instances (capacities 1-3, 2-3 producers); every sequential operation history up to the length "
                           "bound is replayed on the real queue and each result compared; executions of real producer and "
                           "consumer threads are recorded as start/end events and must be explainable by an interleaving "
                           "of the specification's atomic steps; every history of send/receive future polls, drops and "
                           "receiver drop up to the bound (Channel.tla) is replayed on the real channel with counting "
                           "wakers and every result, wake-up count, received sequence, length and message count compared")
