"""CachedRwLock.tla (C14, second half under concurrency): structural parameters extracted from util/cached_rw_lock.rs,
TLC on all interleavings of connect / send on 2-3 clones, executions of real threads validated against
CachedRwLock_Trace.tla."""
import json
import os
import random
import subprocess

from tla import ToolError, confirm_rejection, run_tlc, to_tla

INVARIANTS = ["SeesCompletedConnects", "NothingInvented", "CacheCoherent", "MutexOk"]


def _b(v):
    return "TRUE" if v else "FALSE"


def write_mc(name, struct, clones, maxops, maxconn, workdir):
    mod = f"MCcrw_{name}"
    os.makedirs(workdir, exist_ok=True)
    with open(os.path.join(workdir, mod + ".tla"), "w") as f:
        f.write(f"---- MODULE {mod} ----\nEXTENDS CachedRwLock\nc_Clones == {to_tla(set(clones))}\n====\n")
    with open(os.path.join(workdir, mod + ".cfg"), "w") as f:
        f.write("SPECIFICATION Spec\nCONSTANTS\n  Clones <- c_Clones\n  MaxOps = %d\n  MaxConnects = %d\n"
                "  BumpUnderLock = %s\n  RefreshUnderLock = %s\nCHECK_DEADLOCK FALSE\nINVARIANTS\n  %s\n"
                % (maxops, maxconn, _b(struct["BumpUnderLock"]), _b(struct["RefreshUnderLock"]), " ".join(INVARIANTS)))
    return mod, mod + ".cfg"


def harness(inp, wd, tag):
    from framework import HARNESS
    os.makedirs(wd, exist_ok=True)
    ip = os.path.join(wd, tag + ".in.json")
    op = os.path.join(wd, tag + ".out.ndjson")
    with open(ip, "w") as f:
        json.dump(inp, f)
    p = subprocess.run([HARNESS, "clonesconc", ip, op], stdout=subprocess.PIPE, stderr=subprocess.PIPE, text=True,
                       env=dict(os.environ, RUST_BACKTRACE="0"), timeout=600)
    if p.returncode != 0:
        raise ToolError("harness clonesconc failed: " + p.stderr[-1500:])
    with open(op) as f:
        lines = [json.loads(ln) for ln in f if ln.strip()]
    os.remove(ip)
    os.remove(op)
    runs = []
    for e in lines:
        if e.get("ev") == "reset":
            runs.append([e])
        else:
            runs[-1].append(e)
    return runs


def validate(struct, clones, runs, wd, tag):
    """Returns (accepted, rejections [(run, index, event)], stats)."""
    mod = f"Trcrw_{tag}"
    with open(os.path.join(wd, mod + ".tla"), "w") as f:
        f.write(f"---- MODULE {mod} ----\nEXTENDS CachedRwLock_Trace\nc_Clones == {to_tla(set(clones))}\n====\n")
    with open(os.path.join(wd, mod + ".cfg"), "w") as f:
        f.write("SPECIFICATION TraceSpec\nCONSTANTS\n  Clones <- c_Clones\n  MaxOps = 1000000\n  MaxConnects = 1000000\n"
                "  BumpUnderLock = %s\n  RefreshUnderLock = %s\nCONSTRAINT Track\nPOSTCONDITION TraceAccepted\n"
                "CHECK_DEADLOCK FALSE\nINVARIANTS\n  %s\n"
                % (_b(struct["BumpUnderLock"]), _b(struct["RefreshUnderLock"]), " ".join(INVARIANTS)))
    stats = dict(states=0, transitions=0, wall=0.0, events=0)
    rejections, accepted = [], 0
    remaining = list(runs)
    rnd = 0
    while remaining and len(rejections) < 3:
        rnd += 1
        path = os.path.join(wd, f"{tag}_v{rnd}.ndjson")
        with open(path, "w") as f:
            for r in remaining:
                for e in r:
                    f.write(json.dumps(e) + "\n")
        res = run_tlc(mod, mod + ".cfg", wd, workers=1, timeout=900, dfs=True, heap="4g", env_extra={"TRACE": path},
                      tags=("TRACE_REJECTED",), metaname=tag)
        stats["states"] += res.distinct
        stats["transitions"] += res.generated
        stats["wall"] += res.wall
        os.remove(path)
        if res.ok:
            accepted += len(remaining)
            stats["events"] += sum(len(r) for r in remaining)
            break
        if res.violation and res.violation.startswith("Invariant"):
            ls = [ln for ln in res.trace if ln.startswith("/\\ l = ")]
            n = int(ls[-1].split("=")[1]) - 2 if ls else 0
            reason = "invariant:" + res.violation.split()[1]
        elif res.printed:
            n = int(res.printed[-1].split(",")[1].strip())
            reason = "unmatched"
        else:
            raise ToolError("unexpected TLC outcome: %s\n%s" % (res.violation, res.output[-2000:]))
        pos = 0
        for i, r in enumerate(remaining):
            if n < pos + len(r):
                accepted += i
                remaining = remaining[i + 1:]
                if confirm_rejection(mod, mod + ".cfg", wd, tag, r, res, heap="4g"):
                    rejections.append((r, n - pos, r[n - pos] if n - pos < len(r) else None, reason))
                else:
                    accepted += 1
                break
            pos += len(r)
        else:
            raise ToolError("rejection index outside the trace")
    return accepted, rejections, stats


def crw_part(chk, rng, thorough, wd):
    import orderings
    struct = orderings.extract_crw()           # an unknown shape is a tool error (exit 2)
    # 1. every interleaving of the lock / epoch steps of connect and send on 2 and 3 clones
    for (name, clones, maxops, maxconn) in ([("2c", ["t1", "t2"], 6, 3), ("3c", ["t1", "t2", "t3"], 5, 3)] +
                                            ([("3c6", ["t1", "t2", "t3"], 6, 3)] if thorough else [])):
        mod, cfg = write_mc(name, struct, clones, maxops, maxconn, wd)
        res = run_tlc(mod, cfg, wd, workers=12, timeout=3000)
        chk.add_tlc(f"CachedRwLock[{name}: {len(clones)} clones, {maxops} operations] with the structure of the source "
                    f"{struct}", res)
        if not res.ok:
            chk.violation(f"with the structure found in util/cached_rw_lock.rs {struct} the specification CachedRwLock.tla "
                          f"violates {res.violation} (instance {name}): a send through one clone misses a connection "
                          f"whose connect() through another clone had already returned",
                          dict(engine="crw", structure=struct, instance=name, counterexample=res.trace[-150:]),
                          signature=f"crw:{json.dumps(struct, sort_keys=True)}")
            return
    # 2. real threads, one clone of an Output each, rounds of simultaneous connect / send
    progs = []
    for nt in (2, 3):
        for _ in range(10 if thorough else 4):
            progs.append([[rng.choice(["connect", "send", "send"]) for _ in range(rng.randint(3, 6))] for _ in range(nt)])
    progs.append([["connect", "send", "connect", "send"], ["send", "connect", "send", "send"], ["send", "send", "send", "send"]])
    total = 0
    for nt in (2, 3):
        sel = [p for p in progs if len(p) == nt]
        # delay sweep at the hook points of CachedRwLock (60/61: write() after the lock / after the epoch bump; 62/63: the
        # refresh after the unlocked check / between the copy and the epoch re-read)
        runs = []
        for dp, us in ((0, 0), (60, 300), (61, 300), (62, 300), (63, 300)):
            runs += harness(dict(programs=sel, repeat=(12 if thorough else 3) if dp else (60 if thorough else 12),
                                 delay_point=dp, delay_us=us), wd, f"crw{nt}")
        clones = [f"t{i + 1}" for i in range(nt)]
        acc, rej, st = validate(struct, clones, runs, wd, f"crw{nt}")
        chk.add_trace_stats(f"real threads on clones of one Output [{nt} threads]", acc + len(rej), st)
        chk.evaluations += len(runs)
        total += len(runs)
        for (r, k, ev, reason) in rej:
            chk.violation(f"concurrent connect / send on clones of one Output ({nt} threads) is not a behaviour of "
                          f"CachedRwLock.tla: {reason} at event {k}: {json.dumps(ev)}",
                          dict(engine="crw", threads=nt, trace=r[:k + 1]),
                          signature=f"crwconc:{nt}:{reason}:{json.dumps(ev)}")
        if runs:
            chk.sample(dict(kind="concurrent connect/send on port clones", trace=runs[len(runs) // 2][:16]))
    chk.sample(dict(kind="structure extracted from util/cached_rw_lock.rs", structure=struct))
