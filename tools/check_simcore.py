"""Checks decided with SimCore.tla: C01 C07 C08 C09 C10 C11 C18 (DESIGN.md sections 2.1, 6)."""
import json
import os
import random

import simcore
from framework import TRUSTED, Check
from simbench import BENCHES
from tla import OUT, ToolError

# Per property: benches (TLC instance + behaviour generation), the invariants evaluated on every state
# of every validated trace, whether synchronize calls are projected away, and the random-driver profile.
PROPS = {
    "C01": dict(
        benches=["chrono", "periodic"],
        invariants=["PendingStrictlyFuture", "FiresAtDeadline", "ChronologicalOrder", "StepPost", "ExactFirings"],
        silent_sync=True,
        random=dict(benches=["chrono", "fifo", "periodic"], profile=dict(dmax=5, untilmax=4)),
        gen=dict(quick=dict(chrono=dict(MaxCmds=3), periodic=dict(MaxCmds=3)),
                 thorough=dict(chrono=dict(MaxCmds=4), periodic=dict(MaxCmds=4)))),
    "C07": dict(
        benches=["fifo"],
        invariants=["SameOriginFifo", "ExactFirings"],
        silent_sync=True,
        random=dict(benches=["fifo", "chrono"], profile=dict(sched=0.6, step=0.15, until=0.1, process=0.1,
                                                            cancel=0.05, dmax=2, untilmax=2)),
        gen=dict(quick=dict(fifo=dict(MaxCmds=4)), thorough=dict(fifo=dict(MaxCmds=5)))),
    "C08": dict(
        benches=["validate"],
        invariants=["ScheduleValidated", "ExactFirings", "PendingStrictlyFuture"],
        silent_sync=True,
        random=dict(benches=["validate", "chrono"], profile=dict(sched=0.55, dmax=3)),
        gen=dict(quick=dict(validate=dict(MaxCmds=2)), thorough=dict(validate=dict(MaxCmds=3)))),
    "C09": dict(
        benches=["cancel"],
        invariants=["NoFireAfterCancel", "CancelIsLocal", "ExactFirings"],
        silent_sync=True,
        random=dict(benches=["cancel", "fifo"], profile=dict(sched=0.4, cancel=0.2, dmax=3)),
        gen=dict(quick=dict(cancel=dict(MaxCmds=3)), thorough=dict(cancel=dict(MaxCmds=4)))),
    "C10": dict(
        benches=["periodic"],
        invariants=["ExactFirings", "ChronologicalOrder", "FiresAtDeadline"],
        silent_sync=True,
        random=dict(benches=["periodic"], profile=dict(sched=0.2, step=0.3, until=0.4, process=0.1, dmax=4,
                                                       permax=4, untilmax=7)),
        gen=dict(quick=dict(periodic=dict(MaxCmds=4)), thorough=dict(periodic=dict(MaxCmds=5, MaxTime=8)))),
    "C11": dict(
        benches=["faults"],
        invariants=["TerminatedSticky", "NonFatalKeepsUsable"],
        silent_sync=True,
        random=dict(benches=["faults"], profile=dict(sched=0.3, process=0.3, step=0.2, until=0.2, dmax=2)),
        gen=dict(quick=dict(faults=dict(MaxCmds=2)), thorough=dict(faults=dict(MaxCmds=3)))),
    "C18": dict(
        benches=["clock", "clock_notol"],
        invariants=["SyncMonotone", "SyncBeforeCompute", "SyncCoversNow", "SyncOncePerNewTime", "OutOfSyncGates"],
        silent_sync=False,
        random=dict(benches=["clock", "clock_notol"], profile=dict(sched=0.35, step=0.3, until=0.25, process=0.1,
                                                                  dmax=3, untilmax=3)),
        gen=dict(quick=dict(clock=dict(MaxCmds=3), clock_notol=dict(MaxCmds=3)),
                 thorough=dict(clock=dict(MaxCmds=4), clock_notol=dict(MaxCmds=4)))),
}

TICKS = (1, 1_000_000_007, 999_999_999)
# (t0 nanoseconds, tick): grids on which occurrences land exactly on whole seconds after sub-second ones, or cross a
# second boundary nanosecond by nanosecond
GRIDS = ((0, 1), (0, 1_000_000_007), (0, 999_999_999), (0, 250_000_000), (0, 500_000_000), (0, 1_500_000_000),
         (500_000_000, 500_000_000), (999_999_995, 1), (750_000_000, 250_000_000), (0, 1_000_000_000))


def describe(rej):
    ev = rej.event
    return f"{rej.reason} at event {rej.index}: {json.dumps(ev)[:300]}"


def report(chk, bench, source, rejections, runs_by_id, projection):
    for rj in rejections:
        rid = rj.run[0]["run"]
        run = runs_by_id.get(rid)
        what = (f"trace of the real crate is not a behaviour of SimCore ({source}, bench {bench['name']}, "
                f"{run['threads']} thread(s)): {describe(rj)}")
        chk.violation(what, dict(engine="simcore", bench=bench["name"], run=run, projection=projection,
                                 rejected_at=rj.index, event=rj.event, trace=rj.run[:rj.index + 1][-40:]),
                      signature=f"{bench['name']}:{rj.reason}:{json.dumps(run['cmds'], sort_keys=True)}")


def validate_runs(chk, prop, bench, runs, source, wd, tag, chunk_events=40000):
    cfg = PROPS[prop]
    traces, incidents = simcore.run_harness(bench, runs, wd, tag, nproc=12)
    if cfg["silent_sync"]:
        traces = [simcore.silence_sync(t) for t in traces]
    traces = [simcore.strip_stray(simcore.project_drop(t, prop == "C19")) for t in traces]
    acc, rej, st = simcore.validate(bench, traces, wd, tag, invariants=cfg["invariants"], max_rejections=5,
                                    chunk_events=chunk_events)
    chk.add_trace_stats(f"{source}:{bench['name']}", acc + len(rej), st)
    chk.evaluations += len(runs)
    by_id = {r["id"]: r for r in runs}
    report(chk, bench, source, rej, by_id, dict(silent_sync=cfg["silent_sync"], invariants=cfg["invariants"]))
    if traces:
        t = traces[len(traces) // 2]
        chk.sample(dict(source=source, bench=bench["name"], threads=t[0].get("threads"),
                        trace=[e for e in t[:14]]))
    return acc, rej


def run(prop, tier, seed):
    cfg = PROPS[prop]
    chk = Check(prop, tier, seed)
    rng = random.Random(seed)
    thorough = tier == "thorough"
    wd = os.path.join(OUT, f"{prop}_{tier}")
    # 1. TLC: the properties on the bounded instances (exhaustive)
    for bn in cfg["benches"]:
        b = BENCHES[bn]
        ov = dict(b["mc"]["thorough"]) if thorough else {}
        res = simcore.model_check(b, wd, workers=14, overrides=ov, timeout=3000)
        chk.add_tlc(f"MC_SimCore[{bn}]" + (" thorough" if thorough else ""), res)
        if not res.ok:
            # the specification itself violates a property: this is a defect of the model, not of the crate
            raise ToolError(f"SimCore instance {bn} violates {res.violation}:\n" + "\n".join(res.trace[:80]))
    chk.exhaustive = True
    # 2. B1: behaviours generated by TLC, replayed on the real crate (ST and MT), every trace validated
    cap = 30000 if thorough else 2500
    for bn, ov in cfg["gen"][tier].items():
        b = BENCHES[bn]
        beh, res = simcore.gen_behaviours(b, wd, overrides=ov, workers=12, timeout=3000)
        chk.add_tlc(f"behaviour generation [{bn}] {ov}", res)
        total = len(beh)
        if total > cap:
            rng.shuffle(beh)
            beh = beh[:cap]
        lag_choices = b["mc"]["Lags"] if len(b["mc"]["Lags"]) > 1 else None
        runs = simcore.make_runs(beh, threads=(1, 4), tick_ns=(1,), rng=rng, lag_choices=lag_choices)
        validate_runs(chk, prop, b, runs, f"tlc-behaviours({len(beh)}/{total})", wd, f"b1_{bn}")
    # 3. B3: seeded random drivers, longer sequences, nanosecond grids crossing second boundaries
    n = 1200 if thorough else 160
    length = 40 if thorough else 30
    for bn in cfg["random"]["benches"]:
        b = BENCHES[bn]
        lag_choices = b["mc"]["Lags"] if len(b["mc"]["Lags"]) > 1 else None
        runs = []
        for i in range(n):
            cmds = simcore.random_cmds(b, rng, length, cfg["random"]["profile"])
            lags = []
            if lag_choices:
                lags = [rng.choice(lag_choices) if rng.random() < 0.25 else 0 for _ in range(3 * length + 2)]
                lags[0] = 0
            t0n, tick = rng.choice(GRIDS)
            runs.append(dict(id=i + 1, threads=rng.choice((1, 1, 2, 4)), tick_ns=tick, t0_nanos=t0n,
                             t0_secs=rng.choice((0, 41, 1_600_000_000)), lags=lags, cmds=cmds))
        validate_runs(chk, prop, b, runs, "random-driver", wd, f"b3_{bn}")
    # 3b. C01: volume - a scheduler queue with hundreds of pending actions (one-shot, keyed, periodic, cancelled) stepped
    #     through to the end, on one and on several threads
    if prop == "C01":
        b = BENCHES["chrono"]

        def volume_run(i, n, tmax, threads):
            cmds = []
            for k in range(n):
                kind = rng.choice(["once", "once", "keyed", "periodic", "kperiodic"])
                cmds.append(dict(c="sched", cls="ev", target=rng.choice(["m1", "m2"]), abs=True, d=rng.randint(1, tmax),
                                 kind=kind, per=rng.randint(1, 7) if "periodic" in kind else 0,
                                 slot=rng.choice(["k1", "k2", "k3"]), prog=1))
                if k % 25 == 24:
                    cmds.append(dict(c="cancel", slot=rng.choice(["k1", "k2", "k3"])))
            t = 0
            while t < tmax + 3:
                if rng.random() < 0.5:
                    cmds.append(dict(c="step"))
                else:
                    d = rng.randint(1, 4)
                    cmds.append(dict(c="step_until", abs=False, d=d))
                    t += d
                t += 1
            return dict(id=i, threads=threads, tick_ns=1, t0_secs=0, lags=[], cmds=cmds)
        vruns = [volume_run(i + 1, 300 if thorough else 140, 40 if thorough else 20, th)
                 for i, th in enumerate((1, 4, 2, 16) if thorough else (1, 4))]
        validate_runs(chk, prop, b, vruns, "volume (hundreds of pending actions)", wd, "volume", chunk_events=500)
    # 4. C08 (and C01: "at every moment all pending actions are strictly in the future"): a second thread issues
    #    scheduling requests through a Scheduler clone while the main thread steps; the request is logged before and
    #    after the call and TLC places its atomic effect (XSchedule) in between
    if prop in ("C08", "C01"):
        b = BENCHES["chrono"]
        runs = []
        for i in range((600 if thorough else 80) if prop == "C08" else (300 if thorough else 60)):
            cmds = [dict(c="sched", cls="ev", target="m1", abs=True, d=t, kind="once", per=0, slot="k1", prog=1)
                    for t in range(2, 14, 2)]
            cmds += [dict(c="step") if rng.random() < 0.65 else dict(c="step_until", abs=False, d=rng.randint(1, 3))
                     for _ in range(8)]
            xs = []
            for _ in range(10):
                kind = rng.choice(["once", "keyed", "keyed", "periodic", "kperiodic"])
                absd = rng.random() < 0.7
                xs.append(dict(target=rng.choice(["m1", "m2"]), abs=absd, d=rng.randint(1, 13) if absd else rng.randint(0, 2),
                               kind=kind, per=rng.randint(0, 3) if "periodic" in kind else 0, slot="k3", prog=1))
            runs.append(dict(id=i + 1, threads=rng.choice((1, 4)), tick_ns=1, t0_secs=0, lags=[], cmds=cmds, xsched=xs,
                             x_gap_us=rng.choice((0, 20, 50)), delay_point=rng.choice((40, 40, 42, 43, 44, 44, 45, 45, 0)),
                             delay_us=rng.choice((100, 300))))
        validate_runs(chk, prop, b, runs, "scheduling thread racing step()", wd, "race")
    chk.assumptions = TRUSTED + [
        "mailboxes are abstracted to one FIFO per (recipient, sending task); capacity effects are decided by "
        "Bench.tla (C02-C04)",
        "wall-clock: the Timeout fault uses a 500 ms step timeout against a 2000 ms handler",
    ]
    if prop == "C11":
        # attribution inside model hierarchies: the Bench layer has the sub-models (hpanic_* benches)
        import check_bench
        check_bench.bench_loop(chk, prop, check_bench.C11_ATTRIBUTION, tier, rng, wd)
    return chk.finish(rule="TLC enumerates every driver command sequence of the bounded instance; each generated "
                           "behaviour and each seeded random command sequence is executed on the real crate on 1 and "
                           "2-4 worker threads and the recorded trace must be a behaviour of SimCore.tla with the "
                           "property's invariants holding in every state")


def run_c19(tier, seed):
    """C19: the simulation is dropped at every point of driver sequences (idle, with pending scheduled actions,
    after every kind of failure, with senders suspended on full mailboxes), on 1..16 threads, with delays at the
    pool's protocol points; the drop must return and the accounting recorded by the harness must balance."""
    prop = "C19"
    chk = Check(prop, tier, seed)
    rng = random.Random(seed)
    thorough = tier == "thorough"
    wd = os.path.join(OUT, f"{prop}_{tier}")
    PROPS[prop] = dict(silent_sync=True, invariants=["TerminatedSticky"])
    # 1. TLC on the instances whose behaviours are replayed (the Drop step itself is in SimCore_Trace: TDrop)
    for bn in ("faults", "cancel"):
        b = BENCHES[bn]
        res = simcore.model_check(b, wd, workers=14, overrides=dict(MaxCmds=3), timeout=3000)
        chk.add_tlc(f"MC_SimCore[{bn}]", res)
        if not res.ok:
            raise ToolError(f"SimCore instance {bn} violates {res.violation}")
    # 2. every prefix: all behaviours of length 1..k, the simulation being dropped after the last command
    threads = (1, 2, 4, 16) if thorough else (1, 4)
    for bn, depths in (("faults", (1, 2, 3) if thorough else (1, 2)), ("cancel", (2, 3) if thorough else (2,))):
        b = BENCHES[bn]
        for dpt in depths:
            beh, res = simcore.gen_behaviours(b, wd, overrides=dict(MaxCmds=dpt), workers=12, timeout=3000)
            chk.add_tlc(f"behaviour generation [{bn}] depth {dpt}", res)
            total = len(beh)
            cap = 6000 if thorough else 500
            if total > cap:
                rng.shuffle(beh)
                beh = beh[:cap]
            runs = simcore.make_runs(beh, threads=threads, tick_ns=(1,), rng=rng)
            validate_runs(chk, prop, b, runs, f"drop-after-prefix depth {dpt} ({len(beh)}/{total})", wd, f"c19_{bn}_{dpt}")
    # 3. suspended senders and queued model tasks at the time of a failure, with the delay sweep
    b = BENCHES["flood4"]
    runs, i = [], 0
    sweep = ((0, 0), (27, 300), (28, 500), (10, 300), (11, 300), (20, 500), (33, 2000))
    reps = 40 if thorough else 8
    for dp, us in sweep:
        for th in (2, 3, 4, 16) if thorough else (2, 4):
            for _ in range(reps):
                i += 1
                runs.append(dict(id=i, threads=th, tick_ns=1, t0_secs=0, lags=[], capacity=1, delay_point=dp,
                                 delay_us=us, cmds=[dict(c="process", kind="action", target=1, prog=2)]))
    validate_runs(chk, prop, b, runs, "flood chain + failure, delay sweep", wd, "c19_flood4")
    # 3a. a model suspended in the middle of a broadcast (pending per-recipient send futures) at the time of the failure
    b = BENCHES["flood5"]
    runs, i = [], 0
    for dp, us in ((0, 0), (27, 300), (10, 300), (11, 300)):
        for th in (1, 2, 4, 16) if thorough else (1, 2, 4):
            for _ in range(reps if th > 1 else 1):
                i += 1
                runs.append(dict(id=i, threads=th, tick_ns=1, t0_secs=0, lags=[], capacity=1, delay_point=dp,
                                 delay_us=us, cmds=[dict(c="process", kind="action", target=1, prog=2)]))
    validate_runs(chk, prop, b, runs, "broadcast suspended at a failure", wd, "c19_flood5")
    # 3b. dropped right after a step time-out, while the overrunning (but terminating) handler is still running
    b = BENCHES["faults"]
    runs = []
    for i, th in enumerate((2, 4, 1, 16) if thorough else (2, 4, 1)):
        for j in range(3 if thorough else 1):
            runs.append(dict(id=10 * i + j + 1, threads=th, tick_ns=1, t0_secs=0, lags=[], no_settle=True,
                             cmds=[dict(c="process", kind="event", target="m1", prog=6)]))
    validate_runs(chk, prop, b, runs, "drop during an abandoned handler", wd, "c19_timeout")
    # 4. random prefixes of random lengths
    n = 800 if thorough else 120
    for bn in ("faults", "cancel", "chrono"):
        b = BENCHES[bn]
        runs = []
        for i in range(n):
            cmds = simcore.random_cmds(b, rng, rng.randint(1, 12), dict(sched=0.35, process=0.3, step=0.2, until=0.15))
            runs.append(dict(id=i + 1, threads=rng.choice((1, 2, 4, 16)), tick_ns=1, t0_secs=0, lags=[], cmds=cmds))
        validate_runs(chk, prop, b, runs, "random prefixes", wd, f"c19_rnd_{bn}")
    chk.exhaustive = True
    chk.assumptions = TRUSTED + [
        "release is observed through drop-counting tokens placed by the harness in every model, message payload and "
        "handler future, and through the process's thread count; memory that carries no token is not observed",
        "a step time-out caused by an overrunning handler abandons that computation by design (excluded by the property)",
    ]
    # executor level: the abort / join sequence of Pool.tla (DropReturns, no task dropped outside a worker), TLC and traces
    import check_pool
    check_pool.pool_part(chk, rng, thorough, wd, ["DropReturns", "NoDropOutsideWorker", "OnePlace"],
                         scenarios=["panic", "burst", "msgs"], big=False)
    return chk.finish(rule="the simulation (with its scheduler handle, addresses, event sources and key handles) is "
                           "dropped after every prefix of the TLC-generated driver sequences, after seeded random "
                           "prefixes and after a failure with senders suspended on full mailboxes, on 1-16 threads with a "
                           "delay sweep over the pool hook points; the drop must return (watchdog) and the recorded "
                           "accounting must satisfy TDrop of SimCore_Trace.tla")


def replay(obj):
    """Re-executes the run stored in a replay file and validates it again; prints the outcome."""
    b = BENCHES[obj["bench"]]
    wd = os.path.join(OUT, "replay")
    run = dict(obj["run"], id=1)
    traces, inc = simcore.run_harness(b, [run], wd, "replay", nproc=1)
    proj = obj.get("projection", {})
    if proj.get("silent_sync"):
        traces = [simcore.silence_sync(t) for t in traces]
    acc, rej, st = simcore.validate(b, traces, wd, "replay", invariants=proj.get("invariants") or [])
    for t in traces:
        for e in t:
            print(json.dumps(e))
    if rej:
        print("REJECTED:", describe(rej[0]))
        return 1
    print("ACCEPTED")
    return 0
