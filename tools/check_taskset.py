"""TaskSet.tla (part of C14): the lock-free set of scheduled sub-tasks of a broadcast future.  TLC explores every
interleaving of waker threads and the owner at atomic-step granularity (WellFormed, NoLostTask, NoLostNotify) and
enumerates the sequential histories, each of which is replayed on the real TaskSet with every result and the number
of owner notifications compared."""
import json
import os
import subprocess

from framework import HARNESS
from tla import ToolError, parse_printed, run_tlc, to_tla

INVARIANTS = ["WellFormed", "NoLostTask", "NoLostNotify"]


def write_mc(tag, n, wakers, max_wakes, max_owner, sequential, counts, keeps, wd):
    mod = f"MCts_{tag}"
    os.makedirs(wd, exist_ok=True)
    with open(os.path.join(wd, mod + ".tla"), "w") as f:
        f.write(f"---- MODULE {mod} ----\nEXTENDS MC_TaskSet\nc_Wakers == {to_tla(set(wakers))}\n"
                f"c_Counts == {to_tla(set(counts))}\nc_Keeps == {to_tla(set(keeps))}\n====\n")
    b = lambda x: "TRUE" if x else "FALSE"
    with open(os.path.join(wd, mod + ".cfg"), "w") as f:
        f.write(f"SPECIFICATION Spec\nCONSTANTS\n  N = {n}\n  Wakers <- c_Wakers\n  MaxWakes = {max_wakes}\n"
                f"  MaxOwner = {max_owner}\n  Sequential = {b(sequential)}\n  Emit = {b(sequential)}\n"
                f"  Counts <- c_Counts\n  Keeps <- c_Keeps\nCHECK_DEADLOCK FALSE\nINVARIANTS\n  "
                + " ".join(INVARIANTS + ["EmitHist"]) + "\n")
    return mod, mod + ".cfg"


def harness(inp, wd, tag):
    ip = os.path.join(wd, tag + ".in.json")
    op = os.path.join(wd, tag + ".out.ndjson")
    with open(ip, "w") as f:
        json.dump(inp, f)
    p = subprocess.run([HARNESS, "taskset", ip, op], stdout=subprocess.PIPE, stderr=subprocess.PIPE, text=True,
                       env=dict(os.environ, RUST_BACKTRACE="0"), timeout=900, errors="replace")
    lines = []
    if os.path.exists(op):
        with open(op, errors="replace") as f:
            for ln in f:
                try:
                    lines.append(json.loads(ln))
                except ValueError:
                    break
        os.remove(op)
    os.remove(ip)
    return lines, p.returncode, p.stderr[-400:]


def taskset_part(chk, thorough, wd):
    # 1. every interleaving of the atomic steps
    for (n, wk, mw, mo) in (((2, ["w1", "w2"], 2, 2), (3, ["w1", "w2"], 2, 2), (2, ["w1", "w2", "w3"], 1, 3)) if thorough
                            else ((2, ["w1", "w2"], 2, 2),)):
        tag = f"c{n}_{len(wk)}_{mw}_{mo}"
        mod, cfg = write_mc(tag, n, wk, mw, mo, False, [0, 1, 2], [0, n], wd)
        res = run_tlc(mod, cfg, wd, workers=12, timeout=3000)
        chk.add_tlc(f"TaskSet[{n} tasks, {len(wk)} waker threads x {mw} wakes, {mo} owner operations]", res)
        if not res.ok:
            raise ToolError(f"TaskSet instance {tag} violates {res.violation}:\n" + "\n".join(res.trace[-40:]))
    # 2. sequential histories replayed on the real TaskSet
    for (n, mw, mo) in (((2, 3, 3), (3, 3, 3)) if thorough else ((2, 3, 2),)):
        tag = f"s{n}_{mw}_{mo}"
        mod, cfg = write_mc(tag, n, ["w1"], mw, mo, True, [0, 1, 2], [0, 1, n], wd)
        res = run_tlc(mod, cfg, wd, workers=12, timeout=3000)
        chk.add_tlc(f"TaskSet sequential histories [{n} tasks, {mw} wakes, {mo} owner operations]", res)
        if not res.ok:
            raise ToolError(f"TaskSet sequential instance {tag} violates {res.violation}")
        seen, beh = set(), []
        for ln in res.printed:
            h = parse_printed(ln)[1]
            key = json.dumps([[o["op"], o["arg"], o.get("keep", 0)] for o in h])
            if key not in seen:
                seen.add(key)
                beh.append(h)
        lines, rc, err = harness(dict(n=n, behaviours=[[dict(op=o["op"], arg=o["arg"], keep=o.get("keep", 0)) for o in h]
                                                       for h in beh]), wd, "ts_" + tag)
        if rc != 0:
            chk.violation(f"the harness process died while replaying TaskSet histories: {rc} {err}",
                          dict(engine="taskset", n=n), signature=f"tscrash:{n}")
        bad = 0
        for h, g in zip(beh, lines):
            k = None
            if g.get("panicked"):
                k, why = 0, "the replay panicked"
            else:
                for i, (eo, go) in enumerate(zip(h, g["ops"])):
                    if list(eo["res"]) != list(go["res"]) or eo["nt"] != go["nt"]:
                        k, why = i, (f"result {go['res']} with {go['nt']} notification(s) where TaskSet.tla requires "
                                     f"{list(eo['res'])} with {eo['nt']}")
                        break
            if k is not None:
                if bad < 3:
                    ops = [[o["op"], o["arg"], o.get("keep", 0)] for o in h]
                    chk.violation(f"task set ({n} tasks): after {ops[:k + 1]}: {why}",
                                  dict(engine="taskset", n=n, ops=ops, expected=h, observed=g),
                                  signature=f"ts:{n}:{json.dumps(ops[:k + 1])}")
                bad += 1
        chk.traces += len(beh)
        chk.evaluations += len(beh)
        if beh:
            chk.sample(dict(kind="task set history", tasks=n, history=beh[len(beh) // 2]))


if __name__ == "__main__":
    import sys
    from framework import Check, build_harness
    from tla import OUT
    build_harness()
    chk = Check("C14", "quick", 1)
    taskset_part(chk, len(sys.argv) > 1 and sys.argv[1] == "thorough", os.path.join(OUT, "tstry"))
    print("violations", len(chk.violations), "histories", chk.traces)
    for v in chk.violations[:3]:
        print("  ", v["what"][:600])
