"""TaskSet.tla (part of C14): the lock-free set of scheduled sub-tasks of a broadcast future.  TLC explores every
interleaving of waker threads and the owner at atomic-step granularity (WellFormed, NoLostTask, NoLostNotify) and
enumerates the sequential histories, each of which is replayed on the real TaskSet with every result and the number
of owner notifications compared."""
import json
import os
import subprocess

from framework import HARNESS
from tla import ToolError, parse_printed, run_tlc, to_tla

INVARIANTS = ["WellFormed", "NoLostTask", "NoLostNotify"]


def write_mc(tag, n, wakers, max_wakes, max_owner, sequential, counts, keeps, wd):
    mod = f"MCts_{tag}"
    os.makedirs(wd, exist_ok=True)
    with open(os.path.join(wd, mod + ".tla"), "w") as f:
        f.write(f"---- MODULE {mod} ----\nEXTENDS MC_TaskSet\nc_Wakers == {to_tla(set(wakers))}\n"
                f"c_Counts == {to_tla(set(counts))}\nc_Keeps == {to_tla(set(keeps))}\n====\n")
    b = lambda x: "TRUE" if x else "FALSE"
    with open(os.path.join(wd, mod + ".cfg"), "w") as f:
        f.write(f"SPECIFICATION Spec\nCONSTANTS\n  N = {n}\n  Wakers <- c_Wakers\n  MaxWakes = {max_wakes}\n"
                f"  MaxOwner = {max_owner}\n  Sequential = {b(sequential)}\n  KeepHist = {b(sequential)}\n  Emit = {b(sequential)}\n"
                f"  Counts <- c_Counts\n  Keeps <- c_Keeps\nCHECK_DEADLOCK FALSE\nINVARIANTS\n  "
                + " ".join(INVARIANTS + ["EmitHist"]) + "\n")
    return mod, mod + ".cfg"


def harness(inp, wd, tag):
    ip = os.path.join(wd, tag + ".in.json")
    op = os.path.join(wd, tag + ".out.ndjson")
    with open(ip, "w") as f:
        json.dump(inp, f)
    p = subprocess.run([HARNESS, "taskset", ip, op], stdout=subprocess.PIPE, stderr=subprocess.PIPE, text=True,
                       env=dict(os.environ, RUST_BACKTRACE="0"), timeout=900, errors="replace")
    lines = []
    if os.path.exists(op):
        with open(op, errors="replace") as f:
            for ln in f:
                try:
                    lines.append(json.loads(ln))
                except ValueError:
                    break
        os.remove(op)
    os.remove(ip)
    return lines, p.returncode, p.stderr[-400:]


def validate_conc(n, wakers, runs, wd, tag):
    """Real-thread executions against TaskSet_Trace.tla (same loop as the other trace validations)."""
    from tla import confirm_rejection
    mod = f"Trts_{tag}"
    with open(os.path.join(wd, mod + ".tla"), "w") as f:
        f.write(f"---- MODULE {mod} ----\nEXTENDS TaskSet_Trace\nc_Wakers == {to_tla(set(wakers))}\n"
                f"c_Counts == {{0, 1, 2}}\nc_Keeps == 0..{n}\n====\n")
    with open(os.path.join(wd, mod + ".cfg"), "w") as f:
        f.write(f"SPECIFICATION TraceSpec\nCONSTANTS\n  N = {n}\n  Wakers <- c_Wakers\n  MaxWakes = 1000\n  MaxOwner = 1000\n"
                "  Sequential = FALSE\n  KeepHist = TRUE\n  Counts <- c_Counts\n  Keeps <- c_Keeps\n"
                "CONSTRAINT Track\nPOSTCONDITION TraceAccepted\nCHECK_DEADLOCK FALSE\nINVARIANTS\n  "
                + " ".join(INVARIANTS) + "\n")
    stats = dict(states=0, transitions=0, wall=0.0, events=0)
    rejections, accepted = [], 0
    remaining = list(runs)
    rnd = 0
    while remaining and len(rejections) < 3:
        rnd += 1
        path = os.path.join(wd, f"{tag}_v{rnd}.ndjson")
        with open(path, "w") as f:
            for r in remaining:
                for e in r:
                    f.write(json.dumps(e) + "\n")
        res = run_tlc(mod, mod + ".cfg", wd, workers=1, timeout=1800, dfs=True, heap="4g", env_extra={"TRACE": path},
                      tags=("TRACE_REJECTED",), metaname=tag)
        stats["states"] += res.distinct
        stats["transitions"] += res.generated
        stats["wall"] += res.wall
        os.remove(path)
        if res.ok:
            accepted += len(remaining)
            stats["events"] += sum(len(r) for r in remaining)
            break
        if res.violation and res.violation.startswith("Invariant"):
            ls = [ln for ln in res.trace if ln.startswith("/\\ l = ")]
            nn = int(ls[-1].split("=")[1]) - 2 if ls else 0
            reason = "invariant:" + res.violation.split()[1]
        elif res.printed:
            nn = int(res.printed[-1].split(",")[1].strip())
            reason = "unmatched"
        else:
            raise ToolError("unexpected TLC outcome: %s\n%s" % (res.violation, res.output[-2000:]))
        pos = 0
        for i, r in enumerate(remaining):
            if nn < pos + len(r):
                accepted += i
                k = nn - pos
                remaining = remaining[i + 1:]
                if confirm_rejection(mod, mod + ".cfg", wd, tag, r, res, heap="4g"):
                    rejections.append((r, k, r[k] if k < len(r) else None, reason))
                else:
                    accepted += 1
                break
            pos += len(r)
        else:
            raise ToolError("rejection index outside the trace")
    return accepted, rejections, stats


def split_resets(lines):
    runs = []
    for e in lines:
        if e.get("ev") == "reset":
            runs.append([e])
        elif runs:
            runs[-1].append(e)
    return runs


def conc_part(chk, rng, thorough, wd):
    """Waker threads hammering a real TaskSet while the owner takes, inspects and discards."""
    nprog, rep = (30, 60) if thorough else (8, 25)
    for n, nw in (((2, 2), (3, 2), (2, 3)) if thorough else ((2, 2), (3, 2))):
        progs = []
        for _ in range(nprog):
            wk = [[rng.randrange(n) for _ in range(rng.randint(2, 4))] for _ in range(nw)]
            ow = []
            for _ in range(rng.randint(2, 4)):
                r = rng.random()
                if r < 0.7:
                    ow.append(dict(op="take", arg=rng.choice((0, 1, 1, 2)), keep=rng.choice((0, 1, n, n))))
                elif r < 0.85:
                    ow.append(dict(op="has", arg=0, keep=0))
                else:
                    ow.append(dict(op="discard", arg=0, keep=0))
            ow += [dict(op="take", arg=0, keep=n), dict(op="has", arg=0, keep=0)]
            progs.append(dict(wakers=wk, owner=ow))
        lines, rc, err = harness(dict(n=n, programs=progs, repeat=rep), wd, f"tsconc_{n}_{nw}")
        if rc != 0:
            chk.violation(f"the harness process died while threads hammered a TaskSet: {rc} {err}",
                          dict(engine="taskset", n=n), signature=f"tsconccrash:{n}:{nw}")
        runs = [r for r in split_resets(lines) if r and r[-1].get("ev") == "oe"]
        acc, rej, st = validate_conc(n, [f"w{i + 1}" for i in range(nw)], runs, wd, f"tsconc_{n}_{nw}")
        chk.add_trace_stats(f"task set, real threads [{n} tasks, {nw} waker threads]", acc + len(rej), st)
        chk.evaluations += len(runs)
        for (r, k, ev, reason) in rej:
            chk.violation(f"execution of real threads on a TaskSet ({n} tasks, {nw} waker threads) is not a behaviour of "
                          f"TaskSet.tla: {reason} at event {k}: {json.dumps(ev)}",
                          dict(engine="taskset", n=n, trace=r[:k + 1]),
                          signature=f"tsconc:{n}:{nw}:{reason}:{json.dumps(ev)}")
        if runs:
            chk.sample(dict(kind="task set, real threads", tasks=n, trace=runs[len(runs) // 2][:20]))


def taskset_part(chk, thorough, wd, rng=None):
    # 1. every interleaving of the atomic steps
    for (n, wk, mw, mo) in (((2, ["w1", "w2"], 2, 2), (3, ["w1", "w2"], 2, 2), (2, ["w1", "w2", "w3"], 1, 3)) if thorough
                            else ((2, ["w1", "w2"], 2, 2),)):
        tag = f"c{n}_{len(wk)}_{mw}_{mo}"
        mod, cfg = write_mc(tag, n, wk, mw, mo, False, [0, 1, 2], [0, n], wd)
        res = run_tlc(mod, cfg, wd, workers=12, timeout=3000)
        chk.add_tlc(f"TaskSet[{n} tasks, {len(wk)} waker threads x {mw} wakes, {mo} owner operations]", res)
        if not res.ok:
            raise ToolError(f"TaskSet instance {tag} violates {res.violation}:\n" + "\n".join(res.trace[-40:]))
    # 2. sequential histories replayed on the real TaskSet
    for (n, mw, mo) in (((2, 3, 3), (3, 3, 3)) if thorough else ((2, 3, 2),)):
        tag = f"s{n}_{mw}_{mo}"
        mod, cfg = write_mc(tag, n, ["w1"], mw, mo, True, [0, 1, 2], [0, 1, n], wd)
        res = run_tlc(mod, cfg, wd, workers=12, timeout=3000)
        chk.add_tlc(f"TaskSet sequential histories [{n} tasks, {mw} wakes, {mo} owner operations]", res)
        if not res.ok:
            raise ToolError(f"TaskSet sequential instance {tag} violates {res.violation}")
        seen, beh = set(), []
        for ln in res.printed:
            h = parse_printed(ln)[1]
            key = json.dumps([[o["op"], o["arg"], o.get("keep", 0)] for o in h])
            if key not in seen:
                seen.add(key)
                beh.append(h)
        lines, rc, err = harness(dict(n=n, behaviours=[[dict(op=o["op"], arg=o["arg"], keep=o.get("keep", 0)) for o in h]
                                                       for h in beh]), wd, "ts_" + tag)
        if rc != 0:
            chk.violation(f"the harness process died while replaying TaskSet histories: {rc} {err}",
                          dict(engine="taskset", n=n), signature=f"tscrash:{n}")
        bad = 0
        for h, g in zip(beh, lines):
            k = None
            if g.get("panicked"):
                k, why = 0, "the replay panicked"
            else:
                for i, (eo, go) in enumerate(zip(h, g["ops"])):
                    if list(eo["res"]) != list(go["res"]) or eo["nt"] != go["nt"]:
                        k, why = i, (f"result {go['res']} with {go['nt']} notification(s) where TaskSet.tla requires "
                                     f"{list(eo['res'])} with {eo['nt']}")
                        break
            if k is not None:
                if bad < 3:
                    ops = [[o["op"], o["arg"], o.get("keep", 0)] for o in h]
                    chk.violation(f"task set ({n} tasks): after {ops[:k + 1]}: {why}",
                                  dict(engine="taskset", n=n, ops=ops, expected=h, observed=g),
                                  signature=f"ts:{n}:{json.dumps(ops[:k + 1])}")
                bad += 1
        chk.traces += len(beh)
        chk.evaluations += len(beh)
        if beh:
            chk.sample(dict(kind="task set history", tasks=n, history=beh[len(beh) // 2]))
    # 3. real threads
    import random
    conc_part(chk, rng or random.Random(chk.seed), thorough, wd)


if __name__ == "__main__":
    import sys
    from framework import Check, build_harness
    from tla import OUT
    build_harness()
    chk = Check("C14", "quick", 1)
    taskset_part(chk, len(sys.argv) > 1 and sys.argv[1] == "thorough", os.path.join(OUT, "tstry"))
    print("violations", len(chk.violations), "histories", chk.traces)
    for v in chk.violations[:3]:
        print("  ", v["what"][:600])
