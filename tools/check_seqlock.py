"""C15: the time cell.  TLC decides NotTorn / Monotone / NotOlderThanPublished on SeqLock.tla (release/acquire memory
model) under the orderings extracted from the current source; real reader threads racing the stepping thread are
validated against SeqLock_Trace.tla."""
import json
import os
import subprocess

import orderings
import seqlockdefs
from framework import HARNESS, TRUSTED, Check
from tla import OUT, ToolError, run_tlc


def run(tier, seed):
    chk = Check("C15", tier, seed)
    thorough = tier == "thorough"
    wd = os.path.join(OUT, f"C15_{tier}")
    os.makedirs(wd, exist_ok=True)
    # 1. B4: orderings from the source, then TLC on the weak-memory model
    skeleton_error = None
    try:
        consts = orderings.extract()
    except ToolError as e:
        # the atomic operations are no longer those the specification was written for: the model cannot be
        # instantiated; the run-time part below may still decide
        skeleton_error = str(e)
        consts = None
    insts = [("1r_2w", ["r1"], 2, 3), ("2r_2w", ["r1", "r2"], 2, 2), ("1r_3w", ["r1"], 3, 2)]
    if thorough:
        insts += [("1r_3w_3", ["r1"], 3, 3), ("2r_3w", ["r1", "r2"], 3, 2)]
    for (name, readers, nw, nr) in (insts if consts else []):
        mod, cfg = seqlockdefs.write_mc(name, consts, readers, nw, nr, wd)
        res = run_tlc(mod, cfg, wd, workers=14, timeout=3000)
        chk.add_tlc(f"SeqLock[{name}] with the orderings of the source {consts}", res)
        if not res.ok:
            # under the orderings found in the source the model exhibits a torn / stale / backwards read
            path = os.path.join(wd, f"counterexample_{name}.txt")
            with open(path, "w") as f:
                f.write("\n".join(res.trace))
            chk.violation(f"with the memory orderings found in sync_cell.rs / monotonic_time.rs {consts} the "
                          f"specification violates {res.violation} (instance {name}): TLC counterexample saved",
                          dict(engine="seqlock", orderings=consts, instance=name, counterexample=res.trace[:200]),
                          signature=f"orderings:{json.dumps(consts, sort_keys=True)}")
            break
    chk.sample(dict(kind="orderings extracted from the source", orderings=consts))
    # 2. run time: readers on other threads through Scheduler::time() while the main thread steps, with delays
    #    between the two word stores / loads
    nread = 0
    for (wd_us, rd_us, su) in ((0, 0, False), (200, 0, False), (200, 50, True), (1000, 0, True)):
        ip = os.path.join(wd, "tc.in.json")
        op = os.path.join(wd, "tc.out.ndjson")
        with open(ip, "w") as f:
            json.dump(dict(updates=40 if thorough else 25, readers=3, runs=6 if thorough else 2, writer_delay_us=wd_us,
                           reader_delay_us=rd_us, use_step_until=su), f)
        try:
            p = subprocess.run([HARNESS, "timecell", ip, op], stdout=subprocess.PIPE, stderr=subprocess.PIPE, text=True,
                               env=dict(os.environ, RUST_BACKTRACE="0"), timeout=300)
            rc, err = p.returncode, p.stderr[-600:]
        except subprocess.TimeoutExpired:
            rc, err = -9, "timed out"
        if rc != 0:
            chk.violation(f"the time-cell run (writer delay {wd_us} us) did not complete: exit {rc}: {err}",
                          dict(engine="seqlock", writer_delay_us=wd_us), signature=f"timecell-crash:{wd_us}")
            continue
        mod = "Trs_timecell"
        with open(os.path.join(wd, mod + ".tla"), "w") as f:
            f.write(f"---- MODULE {mod} ----\nEXTENDS SeqLock_Trace\n====\n")
        with open(os.path.join(wd, mod + ".cfg"), "w") as f:
            f.write("SPECIFICATION Spec\nCONSTRAINT Track\nPOSTCONDITION TraceAccepted\nCHECK_DEADLOCK FALSE\n")
        res = run_tlc(mod, mod + ".cfg", wd, workers=1, timeout=900, dfs=True, heap="4g", env_extra={"TRACE": op},
                      tags=("TRACE_REJECTED",))
        n = sum(1 for _ in open(op))
        nread += n
        chk.add_trace_stats(f"reader threads vs stepping thread (writer delay {wd_us} us, reader delay {rd_us} us)", 1,
                            dict(states=res.distinct, transitions=res.generated, wall=res.wall, events=n))
        if not res.ok:
            ev = res.printed[-1] if res.printed else res.violation
            chk.violation(f"a reader thread obtained a time the simulation never had, or an older one than before "
                          f"(writer delay {wd_us} us): {ev}",
                          dict(engine="seqlock", writer_delay_us=wd_us, reader_delay_us=rd_us, event=str(ev)),
                          signature=f"timecell:{str(ev)[:120]}")
        os.remove(ip)
        os.remove(op)
    if skeleton_error and not chk.violations:
        raise ToolError(skeleton_error)
    chk.evaluations = nread
    chk.exhaustive = True
    chk.assumptions = TRUSTED + [
        "the memory model of SeqLock.tla is a view-based release/acquire semantics with fences, without load "
        "buffering or out-of-thin-air values and with append-only modification order (each location has one writer)",
        "no execution on this x86 machine exhibits the reorderings the property quantifies over: a weakened ordering is "
        "caught by TLC from the extracted constants only; structural changes (missing odd store, missing re-check, "
        "swapped stores) are also caught at run time",
    ]
    return chk.finish(rule="the ordering of every atomic operation of SyncCell::write/try_read and of the two-word "
                           "store/load is extracted from the current source and TLC explores every interleaving and every "
                           "admissible reads-from choice of 1 writer x 2-3 updates and 1-2 readers x 2-3 reads; reader "
                           "threads racing the stepping thread (delays between the word stores) are validated against "
                           "SeqLock_Trace.tla")
