import os
from tla import to_tla

INVARIANTS = ["NotTorn", "Monotone", "NotOlderThanPublished", "ValuesWritten"]


def write_mc(name, consts, readers, nwrites, nreads, workdir, publish=True):
    mod = f"MCs_{name}"
    os.makedirs(workdir, exist_ok=True)
    with open(os.path.join(workdir, mod + ".tla"), "w") as f:
        f.write(f"---- MODULE {mod} ----\nEXTENDS SeqLock\nc_Readers == {to_tla(set(readers))}\n====\n")
    cfg = ["SPECIFICATION Spec", "CONSTANTS", "  Readers <- c_Readers", f"  NWrites = {nwrites}", f"  NReads = {nreads}"]
    for k, v in consts.items():
        cfg.append(f"  {k} = " + (("TRUE" if v else "FALSE") if isinstance(v, bool) else f'"{v}"'))
    cfg += [f"  Publish = {'TRUE' if publish else 'FALSE'}", "CHECK_DEADLOCK FALSE", "INVARIANTS", "  " + " ".join(INVARIANTS)]
    with open(os.path.join(workdir, mod + ".cfg"), "w") as f:
        f.write("\n".join(cfg) + "\n")
    return mod, mod + ".cfg"
