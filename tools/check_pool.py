"""Pool.tla: the multi-threaded executor's protocol (C04 / C06 / C11 / C19 at the executor level).

pool_part(chk, ...) is called by the C04, C06 and C19 checks:
  1. TLC explores every interleaving of Pool.tla on the scenarios of pooldefs.py (2-3 workers) with the property's
     invariants; the structural parameters of the specification (fold before deactivation, hand-over at thread exit)
     are extracted from the current source of mt_executor.rs;
  2. the same scenarios run on the real thread pool (verif::pool facade) under a delay sweep over the pool's hook
     points; every recorded execution is validated against Pool_Trace.tla (all shared-memory steps inferred by TLC);
  3. large wake-up bursts (local-queue overflow, injector buckets): the result of every run() and the number of tasks
     polled are compared with what OkMeansQuiescent / CountExact require."""
import json
import os
import re
import subprocess

import pooldefs
from framework import HARNESS
from tla import OUT, ToolError, run_tlc, to_tla, confirm_rejection

REPO = os.environ.get("VERIF_REPO", "/repo")
SRC = REPO + "/nexosim/src/executor/mt_executor.rs"
DELAY_POINTS = [20, 21, 22, 23, 24, 25, 26, 27, 28, 29, 30, 31, 35, 36]


def extract_structure():
    """Reads from run_local_worker (a) whether the thread-local message count is folded before the worker tries to
    deactivate itself, (b) whether the last worker re-checks the injector, (c) whether leftover tasks are handed to the
    injector before the thread exits."""
    src = open(SRC).read()
    m = re.search(r"fn run_local_worker\(.*?\n}\n", src, re.S)
    if not m:
        raise ToolError("run_local_worker not found: Pool.tla is out of date for mt_executor.rs")
    body = re.sub(r"//[^\n]*", "", m.group(0))
    loop = body[body.index("loop {"):]
    calls = [(mm.start(), mm.group(0)) for mm in re.finditer(r"update_msg_count\(\)|try_set_worker_inactive\(|"
                                                             r"set_all_workers_inactive\(\)|parker\.park\(\)", loop)]
    names = [c for _, c in calls]
    if "try_set_worker_inactive(" not in names or "update_msg_count()" not in names:
        raise ToolError("deactivation / fold calls not found in run_local_worker: Pool.tla is out of date")
    first_deact = names.index("try_set_worker_inactive(")
    folds_before = [i for i, n in enumerate(names) if n == "update_msg_count()" and i < first_deact]
    folds_after = [i for i, n in enumerate(names) if n == "update_msg_count()" and i > first_deact]
    if folds_before and not folds_after:
        fold_first = True
    elif folds_after and not folds_before:
        fold_first = False
    else:
        raise ToolError("unexpected placement of update_msg_count() in run_local_worker: Pool.tla is out of date")
    recheck = bool(re.search(r"else\s+if\s+injector\.is_empty\(\)", loop))
    tail = body[body.rindex("}));"):]
    hand_over = bool(re.search(r"fast_slot\.take\(\)", tail)) and "injector.insert_task" in tail
    return dict(fold_first=fold_first, recheck=recheck, hand_over=hand_over, flag_under_lock=flag_under_lock())


INJ_SRC = REPO + "/nexosim/src/executor/mt_executor/injector.rs"


def fn_body(src, name):
    m = re.search(r"fn " + name + r"\b[^{]*\{", src)
    if not m:
        raise ToolError(f"fn {name} not found: Pool.tla is out of date")
    i, depth = m.end(), 1
    while depth and i < len(src):
        depth += {"{": 1, "}": -1}.get(src[i], 0)
        i += 1
    return src[m.end():i - 1]


def flag_under_lock():
    """Is every store to the injector's `is_empty` hint in pop_bucket made while the guard of the vector's mutex is
    alive?  The guard bound by `let g = self.inner.lock()...;` lives until the end of the block that contains the
    statement (or until an explicit drop(g)); a lock() that is not bound by a let is released at the end of its
    statement."""
    src = re.sub(r"//[^\n]*", "", open(INJ_SRC).read())
    body = fn_body(src, "pop_bucket")
    lk = body.find(".lock()")
    stores = [m.start() for m in re.finditer(r"is_empty\s*\.\s*store\s*\(", body)]
    if lk < 0 or not stores:
        raise ToolError("pop_bucket: lock() or the is_empty store not found: Pool.tla is out of date for injector.rs")
    stmt_start = max(body.rfind(";", 0, lk), body.rfind("{", 0, lk), body.rfind("}", 0, lk)) + 1
    stmt = body[stmt_start:lk]
    m = re.match(r"\s*let\s+(?:mut\s+)?(\w+)\s*=\s*self\s*\.\s*inner\s*$", stmt)
    if m:
        guard = m.group(1)
        depth, i = 0, lk
        while i < len(body):          # end of the block containing the let statement
            if body[i] == "{":
                depth += 1
            elif body[i] == "}":
                depth -= 1
                if depth < 0:
                    break
            i += 1
        scope_end = i
        dm = re.search(r"\bdrop\s*\(\s*" + guard + r"\s*\)", body[lk:scope_end])
        if dm:
            scope_end = lk + dm.start()
    else:
        scope_end = body.find(";", lk)
    return all(lk < st < scope_end for st in stores)


def harness(inp, wd, tag, timeout=600):
    os.makedirs(wd, exist_ok=True)
    ip = os.path.join(wd, tag + ".in.json")
    op = os.path.join(wd, tag + ".out.ndjson")
    with open(ip, "w") as f:
        json.dump(inp, f)
    try:
        p = subprocess.run([HARNESS, "pool", ip, op], stdout=subprocess.PIPE, stderr=subprocess.PIPE, text=True,
                           env=dict(os.environ, RUST_BACKTRACE="0"), timeout=timeout, errors="replace")
        rc, err = p.returncode, p.stderr[-500:]
    except subprocess.TimeoutExpired:
        rc, err = -9, "timed out"
    lines = []
    if os.path.exists(op):
        with open(op, errors="replace") as f:
            for ln in f:
                try:
                    lines.append(json.loads(ln))
                except ValueError:
                    break
        os.remove(op)
    os.remove(ip)
    return lines, rc, err


def split_resets(lines):
    runs = []
    for e in lines:
        if e.get("ev") == "reset":
            runs.append([e])
        elif runs:
            runs[-1].append(e)
    return runs


def validate(name, scen, nw, struct, runs, wd, tag, invariants, markers=True):
    if not markers:
        runs = [[e for e in r if e.get("ev") not in ("pt", "mpt")] for r in runs]
        tag = tag + "_obs"
    mod = f"Trp_{tag}"
    tasks = sorted(scen["scripts"])
    script = "[t \\in c_Tasks |-> " + " ".join(
        f"{'IF' if i == 0 else 'ELSE IF'} t = {t} THEN {to_tla(scen['scripts'][t])}" for i, t in enumerate(tasks)) + \
        " ELSE <<>>]"
    rs = "<<" + ", ".join(to_tla(set(r)) for r in scen["runs"]) + ">>"
    with open(os.path.join(wd, mod + ".tla"), "w") as f:
        f.write(f"---- MODULE {mod} ----\nEXTENDS Pool_Trace\nc_Tasks == {to_tla(set(tasks))}\nc_Script == {script}\n"
                f"c_Runs == {rs}\n====\n")
    b = lambda x: "TRUE" if x else "FALSE"
    with open(os.path.join(wd, mod + ".cfg"), "w") as f:
        f.write("SPECIFICATION TraceSpec\nCONSTANTS\n"
                f"  NW = {nw}\n  Tasks <- c_Tasks\n  Script <- c_Script\n  Runs <- c_Runs\n"
                f"  FoldFirst = {b(struct['fold_first'])}\n  Recheck = {b(struct['recheck'])}\n"
                f"  HandOver = {b(struct['hand_over'])}\n  DropAfter = TRUE\n"
                f"  FlagUnderLock = {b(struct['flag_under_lock'])}\n  LocalCap = 256\n  BucketCap = 128\n"
                f"  Markers = {b(markers)}\n"
                "CONSTRAINT Track\nPOSTCONDITION TraceAccepted\nCHECK_DEADLOCK FALSE\nINVARIANTS\n  "
                + " ".join(invariants) + "\n")
    stats = dict(states=0, transitions=0, wall=0.0, events=0)
    rejections, accepted = [], 0
    remaining = list(runs)
    rnd = 0
    while remaining and len(rejections) < 3:
        rnd += 1
        path = os.path.join(wd, f"{tag}_v{rnd}.ndjson")
        with open(path, "w") as f:
            for r in remaining:
                for e in r:
                    f.write(json.dumps(e) + "\n")
        res = run_tlc(mod, mod + ".cfg", wd, workers=1, timeout=1800, dfs=True, heap="4g", env_extra={"TRACE": path},
                      tags=("TRACE_REJECTED",), metaname=tag)
        stats["states"] += res.distinct
        stats["transitions"] += res.generated
        stats["wall"] += res.wall
        os.remove(path)
        if res.ok:
            accepted += len(remaining)
            stats["events"] += sum(len(r) for r in remaining)
            break
        if res.violation and res.violation.startswith("Invariant"):
            ls = [ln for ln in res.trace if ln.startswith("/\\ l = ")]
            n = int(ls[-1].split("=")[1]) - 2 if ls else 0
            reason = "invariant:" + res.violation.split()[1]

        elif res.printed:
            n = int(res.printed[-1].split(",")[1].strip())
            reason = "unmatched"
        else:
            raise ToolError("unexpected TLC outcome: %s\n%s" % (res.violation, res.output[-2000:]))
        pos = 0
        for i, r in enumerate(remaining):
            if n < pos + len(r):
                accepted += i
                k = n - pos
                remaining = remaining[i + 1:]
                if confirm_rejection(mod, mod + ".cfg", wd, tag, r, res, heap="4g"):
                    rejections.append((r, k, r[k] if k < len(r) else None, reason))
                else:
                    accepted += 1
                break
            pos += len(r)
        else:
            raise ToolError("rejection index outside the trace")
    return accepted, rejections, stats


def liveness_part(chk, thorough, wd, names, struct):
    """Pool.tla FairSpec => <>Finished: under weak fairness of every thread the executor thread gets through every
    run() of the scenario and through the drop of the executor (no lost unpark, no endless search loop)."""
    for nw in ((2, 3) if thorough else (2,)):
        for n in names:
            if nw == 3 and n in ("overflow", "burst"):
                continue  # several 10^6 states: the SCC search of the liveness check does not finish in the tier's budget
            mod, cfg = pooldefs.write_mc(n, pooldefs.SCENARIOS[n], nw, os.path.join(wd, "live"), invariants=["TypeOK"],
                                         **struct)
            cp = os.path.join(wd, "live", cfg)
            with open(cp) as f:
                text = f.read().replace("SPECIFICATION Spec", "SPECIFICATION FairSpec") + "PROPERTIES Terminates\n"
            with open(cp, "w") as f:
                f.write(text)
            res = run_tlc(mod, cfg, os.path.join(wd, "live"), workers=8, timeout=3000)
            chk.add_tlc(f"Pool liveness [FairSpec => <>Finished, {n}, {nw} workers, structure {struct}]", res)
            if not res.ok:
                chk.violation(f"Pool.tla with the structure of run_local_worker extracted from the source ({struct}): under "
                              f"weak fairness of every thread, scenario {n} with {nw} workers has a behaviour in which a "
                              f"run() or the drop of the executor never returns ({res.violation})",
                              dict(engine="pool", scenario=n, nw=nw, structure=struct, tlc_trace=res.trace[-160:]),
                              signature=f"poollive:{n}:{nw}")


def pool_part(chk, rng, thorough, wd, invariants, scenarios=None, big=True, only_big=False):
    prop = chk.prop
    struct = extract_structure()
    names = scenarios or sorted(pooldefs.SCENARIOS)
    if only_big:
        names = []
    # 1. every interleaving
    for nw in ((2, 3) if thorough else (2,)):
        for n in names:
            mod, cfg = pooldefs.write_mc(n, pooldefs.SCENARIOS[n], nw, wd, invariants=invariants, **struct)
            res = run_tlc(mod, cfg, wd, workers=12, timeout=3000)
            chk.add_tlc(f"Pool[{n}, {nw} workers, structure {struct}]", res)
            if not res.ok:
                chk.violation(f"Pool.tla with the structure of run_local_worker extracted from the source ({struct}) violates "
                              f"{res.violation} on scenario {n} with {nw} workers",
                              dict(engine="pool", scenario=n, nw=nw, structure=struct, tlc_trace=res.trace[-120:]),
                              signature=f"pooltlc:{n}:{nw}:{res.violation}")
    # 1b. liveness under weak fairness of every thread (where NoStrandedRun, its safety shadow, is checked)
    if "NoStrandedRun" in invariants:
        liveness_part(chk, thorough, wd, names, struct)
    # 2. real thread pool, delay sweep, trace validation
    rep = 12 if thorough else 4
    for n in names:
        sc = pooldefs.SCENARIOS[n]
        for nw in ((2, 3) if thorough else (2, 3)):
            runs, hung = [], None
            sweeps = [([], 0)] + [([p], us) for p in DELAY_POINTS for us in ((300, 2000) if thorough else (500,))]
            if not thorough:
                sweeps = [sweeps[0]] + rng.sample(sweeps[1:], 6)
            for si, (pts, us) in enumerate(sweeps):
                inp = dict(nw=nw, scripts={str(t): v for t, v in sc["scripts"].items()}, runs=sc["runs"], repeat=rep,
                           delay_points=pts, delay_us=us, drop_after=True)
                lines, rc, err = harness(inp, wd, f"pool_{n}_{nw}_{si}")
                rs = split_resets(lines)
                if rc != 0:
                    what = "did not return (watchdog)" if rc == 3 else f"died ({rc}: {err})"
                    chk.violation(f"thread pool scenario {n} on {nw} workers, delay at {pts}: a call to run() or the drop of "
                                  f"the executor {what}",
                                  dict(engine="pool", scenario=n, nw=nw, delay_points=pts, delay_us=us,
                                       last=rs[-1][-60:] if rs else None),
                                  signature=f"poolhang:{n}:{nw}:{pts}")
                    rs = rs[:-1]
                runs += [r for r in rs if r and r[-1].get("ev") == "dropped"]
            acc, rej, st = validate(n, sc, nw, struct, runs, wd, f"{prop}_{n}_{nw}", invariants)
            chk.add_trace_stats(f"thread pool [{n}, {nw} workers]", acc + len(rej), st)
            chk.evaluations += len(runs)
            for (r, k, ev, reason) in rej:
                if reason == "unmatched" and ev is not None and ev.get("ev") in ("pt", "mpt"):
                    # the first unmatched event is an internal hook point: is the execution still explained when only
                    # what the tasks and the caller observe (polls, effects, results of run(), drop) is matched?
                    a2, rej2, _ = validate(n, sc, nw, struct, [r], wd, f"{prop}_{n}_{nw}", invariants, markers=False)
                    if not rej2:
                        chk.notes.append(f"thread pool scenario {n} on {nw} workers: the order of internal hook points "
                                         f"departs from Pool.tla at {json.dumps(ev)} but polls, effects, results and the "
                                         f"invariants are those of a behaviour of the specification: not a violation of "
                                         f"the property (Pool.tla may be out of date for mt_executor.rs)")
                        continue
                    (r, k, ev, reason) = rej2[0]
                chk.violation(f"execution of the real thread pool (scenario {n}, {nw} workers) is not a behaviour of "
                              f"Pool.tla: {reason} at event {k}: {json.dumps(ev)}",
                              dict(engine="pool", scenario=n, nw=nw, structure=struct, trace=r[:k + 1][-80:]),
                              signature=f"pooltrace:{n}:{nw}:{reason}:{json.dumps(ev)}")
            if runs:
                chk.sample(dict(kind="thread pool markers", scenario=n, nw=nw, trace=runs[len(runs) // 2][:24]))
    # 3. bursts beyond the local queue's capacity
    if big:
        for nw, leaves, rounds in (((2, 300, 300), (4, 600, 600), (8, 1500, 300), (16, 4000, 150)) if thorough
                                   else ((2, 300, 150), (4, 600, 300), (8, 1500, 100))):
            lines, rc, err = harness(dict(nw=nw, big=dict(leaves=leaves, rounds=rounds)), wd, f"pool_big_{nw}", timeout=900)
            chk.evaluations += rounds
            bad = [e for e in lines if e.get("ev") == "ret" and (e["r"] != "ok" or e["polled"] != e["expected"])]
            if rc != 0 and not bad:
                what = "did not return (watchdog)" if rc == 3 else f"died ({rc}: {err})"
                chk.violation(f"burst of {leaves} wake-ups on {nw} workers: run() {what}",
                              dict(engine="pool", big=dict(nw=nw, leaves=leaves, rounds=rounds), lines=lines[-5:]),
                              signature=f"poolbig:hang:{nw}")
            for e in bad[:1]:
                chk.violation(f"burst of {leaves} wake-ups on {nw} workers, round {e['k']}: run() returned {e['r']}"
                              f"({e['n']}) with {e['polled']} of {e['expected']} woken tasks polled (OkMeansQuiescent / "
                              f"CountExact of Pool.tla require ok, 0 and all of them)",
                              dict(engine="pool", big=dict(nw=nw, leaves=leaves, rounds=rounds), outcome=e),
                              signature=f"poolbig:{nw}:{e['r']}")
        # several rings of tasks hopping concurrently: two wake-ups per poll on several workers at once
        for nw, rings, ln, hops, rounds in (((3, 2, 5, 200, 3000), (4, 3, 5, 200, 3000), (8, 6, 4, 200, 2000), (16, 12, 4, 100, 1000))
                                           if thorough else ((3, 2, 5, 200, 1500), (4, 3, 5, 200, 1500))):
            lines, rc, err = harness(dict(nw=nw, rings=dict(rings=rings, len=ln, hops=hops, rounds=rounds)), wd,
                                     f"pool_rings_{nw}", timeout=900)
            chk.evaluations += rounds
            bad = [e for e in lines if e.get("ev") == "ret" and (e["r"] != "ok" or e.get("left", 0) != 0)]
            if rc != 0 and not bad:
                what = "did not return (watchdog)" if rc == 3 else f"died ({rc}: {err})"
                chk.violation(f"{rings} rings of wake-ups on {nw} workers: run() {what}",
                              dict(engine="pool", rings=dict(nw=nw, rings=rings, len=ln, hops=hops, rounds=rounds),
                                   lines=lines[-5:]), signature=f"poolrings:hang:{nw}")
            for e in bad[:1]:
                chk.violation(f"{rings} rings of wake-ups on {nw} workers, round {e['k']}: run() returned {e['r']}({e['n']}) "
                              f"with {e.get('left')} hops not executed although no task panics and every woken task is "
                              f"runnable (Pool.tla: run() returns ok once nothing is queued)",
                              dict(engine="pool", rings=dict(nw=nw, rings=rings, len=ln, hops=hops, rounds=rounds), outcome=e),
                              signature=f"poolrings:{nw}:{e['r']}")


if __name__ == "__main__":
    import random
    import sys
    from framework import Check, build_harness
    build_harness()
    chk = Check("C04", "quick", 1)
    wd = os.path.join(OUT, "pooltry")
    print(extract_structure())
    pool_part(chk, random.Random(1), len(sys.argv) > 1 and sys.argv[1] == "thorough", wd, pooldefs.INVARIANTS,
              scenarios=sys.argv[2:] or None)
    print("violations", len(chk.violations), [v["what"][:300] for v in chk.violations[:3]], "traces", chk.traces, "evaluations", chk.evaluations)
