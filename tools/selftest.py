"""./check selftest: demonstrates that the specifications are bound to the implementation.

For every trace specification a recorded trace of the real crate is first accepted, then (a) one recorded field is
corrupted, (b) one event is removed, (c) two events are swapped, and each variant must be rejected.  For the
ordering extraction one extracted ordering is flipped and TLC must produce a counterexample.  TLC is run with
-coverage on one instance per specification and an action that was never taken fails the selftest (vacuity guard)."""
import copy
import json
import os
import random
import re

import benchrun
import check_queue
import check_task
import orderings
import queuedefs
import seqlockdefs
import simcore
import taskdefs
from benchdefs import BENCHES as BBENCHES
from framework import build_harness
from simbench import BENCHES as SBENCHES, write_mc_module
from tla import OUT, run_tlc

WD = os.path.join(OUT, "selftest")
results = []


def record(name, ok, detail=""):
    results.append((name, ok))
    print(("PASS " if ok else "FAIL ") + name + (" - " + detail if detail else ""))


def variants(run, pick_field):
    """(label, mutated run) triples: corrupt a field, drop an event, swap two events."""
    out = []
    a = copy.deepcopy(run)
    idx = pick_field(a)
    out.append(("corrupted field", a if idx is not None else None))
    b = copy.deepcopy(run)
    k = next((i for i, e in enumerate(b) if e.get("ev") in ("op", "hb", "e", "begin") and i > 2), None)
    if k is not None:
        del b[k]
        out.append(("dropped event", b))
    c = copy.deepcopy(run)
    ks = [i for i, e in enumerate(c) if e.get("ev") in ("begin", "hb", "s", "ret", "cmd")]
    if len(ks) >= 2:
        i, j = ks[-2], ks[-1]
        c[i], c[j] = c[j], c[i]
        out.append(("swapped events", c))
    return [(lab, r) for lab, r in out if r is not None]


def simcore_part():
    b = SBENCHES["chrono"]
    rng = random.Random(1)
    runs = [dict(id=i + 1, threads=1, tick_ns=1, t0_secs=0, lags=[], cmds=simcore.random_cmds(b, rng, 12)) for i in range(4)]
    traces, _ = simcore.run_harness(b, runs, WD, "st_simcore", nproc=1)
    traces = [simcore.project_drop(t, True) for t in traces]
    acc, rej, _ = simcore.validate(b, traces, WD, "st_simcore")
    record("SimCore_Trace accepts recorded traces", acc == len(traces) and not rej)
    base = max(traces, key=len)

    def corrupt(r):
        for e in r:
            if e.get("ev") == "ret":
                e["t"] = e["t"] + 1
                return True
        return None
    for lab, mut in variants(base, corrupt):
        acc, rej, _ = simcore.validate(b, [mut], WD, "st_simcore_m")
        record(f"SimCore_Trace rejects a trace with a {lab}", len(rej) == 1)


def bench_part():
    b = BBENCHES["triangle"]
    runs, _, _ = benchrun.run_bench(b, WD, "st_bench", mode="dfs", threads=1, max_runs=3, yields=True)
    acc, rej, _ = benchrun.validate(b, runs, WD, "st_bench")
    record("Bench_Trace accepts recorded executions", acc == len(runs) and not rej)
    base = max(runs, key=len)

    def corrupt(r):
        for e in r:
            if e.get("ev") == "hb" and e["id"]["s"] != "drv":
                e["id"]["n"] += 1
                return True
        return None
    for lab, mut in variants(base, corrupt):
        acc, rej, _ = benchrun.validate(b, [mut], WD, "st_bench_m")
        record(f"Bench_Trace rejects an execution with a {lab}", len(rej) == 1)


def queue_part():
    (name, cap, po, co) = queuedefs.CONCURRENT[1]
    progs = [dict({p: [o["op"] for o in ops] for p, ops in po.items()}, cons=[o["op"] for o in co])]
    lines = check_queue.harness(dict(mode="conc", capacity=cap, producers=sorted(po), programs=progs, repeat=3), WD, "st_q")
    runs = check_queue.split_resets(lines)
    acc, rej, _ = check_queue.validate_traces(cap, sorted(po), runs, WD, "st_q")
    record("MpscQueue_Trace accepts executions of real threads", acc == len(runs) and not rej)
    base = copy.deepcopy(runs[0])
    for e in base:
        if e.get("ev") == "e" and e["ret"][0] == "value":
            e["ret"][2] = 99999      # a value that no producer pushed
            break
    acc, rej, _ = check_queue.validate_traces(cap, sorted(po), [base], WD, "st_q_m")
    record("MpscQueue_Trace rejects an execution with a corrupted popped value", len(rej) == 1)


def task_part():
    script = taskdefs.SCRIPTS["pend_ready"]
    progs = [[["run", "wake", "run"], ["poll_promise", "cancel"]]]
    lines, err = check_task.harness(dict(mode="conc", script=script, with_promise=True, programs=progs, repeat=3), WD, "st_t")
    runs = [r for r in check_task.split_resets(lines) if r[-1].get("ev") == "final"]
    acc, rej, _ = check_task.validate(script, True, ["t1", "t2", "t3"], runs, WD, "st_t")
    record("Task_Trace accepts executions of real threads", err is None and acc == len(runs) and not rej)
    base = copy.deepcopy(runs[0])
    base[-1]["obs"]["npolls"] += 7       # more polls than the programs can cause (+1 can be another legal outcome)
    acc, rej, _ = check_task.validate(script, True, ["t1", "t2", "t3"], [base], WD, "st_t_m")
    record("Task_Trace rejects an execution with a corrupted poll count", len(rej) == 1)


def ordering_part():
    c = orderings.extract()
    mod, cfg = seqlockdefs.write_mc("st_code", c, ["r1"], 2, 2, WD)
    r = run_tlc(mod, cfg, WD, workers=8, timeout=600)
    record("SeqLock holds under the extracted orderings", r.ok)
    for k, v in (("OStoreEven", "rlx"), ("OLoadSeq1", "rlx"), ("FenceW", False), ("FenceR", False)):
        c2 = dict(c)
        c2[k] = v
        mod, cfg = seqlockdefs.write_mc("st_weak_" + k, c2, ["r1"], 2, 2, WD)
        r = run_tlc(mod, cfg, WD, workers=8, timeout=600)
        record(f"TLC finds a counterexample when {k} is weakened to {v}", not r.ok)


def queue_ra_part():
    c = orderings.extract_queue()
    mod, cfg = queuedefs.write_ra("st_code", c, 1, ["p1", "p2"], 2, 4, WD)
    r = run_tlc(mod, cfg, WD, workers=8, timeout=600)
    record("QueueRA holds under the orderings extracted from queue.rs", r.ok)
    mod, cfg = queuedefs.write_ra("st_vac", c, 1, ["p1", "p2"], 2, 4, WD, invariants=["NeverSecondLap"])
    r = run_tlc(mod, cfg, WD, workers=8, timeout=600)
    record("QueueRA: some behaviour takes a message from a re-used slot (vacuity guard)", not r.ok)
    for k, v in (("OPLoadStamp", "rlx"), ("OPStoreStamp", "rlx"), ("OCLoadStamp", "rlx"), ("OCStoreStamp", "rlx"),
                 ("PushPublishesLast", False), ("DropPublishesLast", False)):
        c2 = dict(c)
        c2[k] = v
        mod, cfg = queuedefs.write_ra("st_weak_" + k, c2, 1, ["p1", "p2"], 2, 4, WD)
        r = run_tlc(mod, cfg, WD, workers=8, timeout=600)
        record(f"TLC finds a data race on QueueRA when {k} is set to {v}", not r.ok)


def slot_ra_part():
    import slotdefs
    c = orderings.extract_slot()
    mod, cfg = slotdefs.write_mc("st_code", c, 2, WD)
    r = run_tlc(mod, cfg, WD, workers=4, timeout=600)
    record("SlotRA holds under the orderings extracted from util/slot.rs", r.ok)
    for k, v in (("OWWrite", "rlx"), ("FWClosed", False), ("OWDropLoad", "rlx"), ("OWDropRmw", "rel"), ("ORRead", "rlx"),
                 ("ORDropLoad", "rlx"), ("ORDropRmw", "acq")):
        c2 = dict(c)
        c2[k] = v
        mod, cfg = slotdefs.write_mc("st_weak_" + k, c2, 2, WD)
        r = run_tlc(mod, cfg, WD, workers=4, timeout=600)
        record(f"TLC finds a race / racy deallocation on SlotRA when {k} is set to {v}", not r.ok)


def crw_part():
    import copy as _copy
    import crwdefs
    st = orderings.extract_crw()
    for k in ("BumpUnderLock", "RefreshUnderLock"):
        s2 = dict(st)
        s2[k] = False
        mod, cfg = crwdefs.write_mc("st_" + k, s2, ["t1", "t2", "t3"], 6, 3, WD)
        r = run_tlc(mod, cfg, WD, workers=8, timeout=900)
        record(f"TLC finds a send missing a completed connect on CachedRwLock when {k} is FALSE", not r.ok)
    runs = crwdefs.harness(dict(programs=[[["connect", "send", "connect", "send"], ["send", "connect", "send", "send"]]],
                                repeat=2), WD, "st_crw")
    base = runs[0]
    a, rej, _ = crwdefs.validate(st, ["t1", "t2"], [base], WD, "st_crw0")
    record("CachedRwLock_Trace accepts a recorded execution of real threads on port clones", a == 1 and not rej)
    k = [i for i, e in enumerate(base) if e["ev"] == "se"][-1]
    for lab, f in (("a send that reached an unknown sink", lambda e: e.__setitem__("res", e["res"] + [99])),
                   ("a send that missed a completed connection", lambda e: e.__setitem__("res", []))):
        b = _copy.deepcopy(base)
        f(b[k])
        a, rej, _ = crwdefs.validate(st, ["t1", "t2"], [b], WD, "st_crw1")
        record(f"CachedRwLock_Trace rejects {lab}", a == 0 and len(rej) == 1)
    b = _copy.deepcopy(base)
    del b[[i for i, e in enumerate(b) if e["ev"] == "ce"][0]]
    a, rej, _ = crwdefs.validate(st, ["t1", "t2"], [b], WD, "st_crw2")
    record("CachedRwLock_Trace rejects a trace with a dropped event", a == 0 and len(rej) == 1)


def pool_part():
    import check_pool
    import pooldefs
    sc = pooldefs.SCENARIOS["burst"]
    struct = check_pool.extract_structure()
    inp = dict(nw=2, scripts={str(t): v for t, v in sc["scripts"].items()}, runs=sc["runs"], repeat=2, drop_after=True)
    lines, rc, err = check_pool.harness(inp, WD, "st_pool")
    runs = check_pool.split_resets(lines)

    def val(r, tag):
        a, rej, _ = check_pool.validate("burst", sc, 2, struct, [r], WD, tag, pooldefs.INVARIANTS)
        return a, rej
    base = runs[0]
    a, rej = val(base, "st_pool0")
    record("Pool_Trace accepts an execution of the real thread pool", rc == 0 and a == 1 and not rej)
    m = copy.deepcopy(base)
    i = [i for i, e in enumerate(m) if e.get("ev") == "pt" and e["p"] == 27][-1]
    m[i]["b"] = 1 if m[i]["b"] != 1 else 2
    record("Pool_Trace rejects a corrupted popped task", len(val(m, "st_pool1")[1]) == 1)
    m = copy.deepcopy(base)
    i = [i for i, e in enumerate(m) if e.get("ev") == "ret"][-1]
    m[i]["r"], m[i]["n"] = "unprocessed", 1
    record("Pool_Trace rejects a corrupted result of run()", len(val(m, "st_pool2")[1]) == 1)
    m = copy.deepcopy(base)
    del m[[i for i, e in enumerate(m) if e.get("ev") == "pb"][2]]
    record("Pool_Trace rejects an execution with a dropped poll-begin marker", len(val(m, "st_pool3")[1]) == 1)
    m = copy.deepcopy(base)
    i = [i for i, e in enumerate(m) if e.get("ev") == "mpt" and e["p"] == 31][0]
    j = [k for k, e in enumerate(m) if e.get("ev") == "pt" and e["p"] == 21 and k < i][-1]
    m[i], m[j] = m[j], m[i]
    record("Pool_Trace rejects 'pool seen idle before set_all_workers_inactive'", len(val(m, "st_pool4")[1]) == 1)
    for kw, scen, inv in ((dict(fold_first=False), "balanced", "CountExact"), (dict(hand_over=False), "panic", "NoDropOutsideWorker"),
                          (dict(flag_under_lock=False), "overflow", "OkMeansQuiescent")):
        st = dict(struct)
        st.update(kw)
        mod, cfg = pooldefs.write_mc(scen, pooldefs.SCENARIOS[scen], 2, WD, **st)
        r = run_tlc(mod, cfg, WD, workers=8, timeout=900)
        record(f"TLC finds a counterexample to {inv} when {kw} (structural parameter of Pool.tla)",
               (not r.ok) and inv in (r.violation or ""))

    # liveness: Terminates holds on the specification as it is and fails on a copy in which the worker that finds the
    # pool idle forgets to unpark the executor thread (the copy lives in its own directory, ahead of specs/ on the path)
    lwd = os.path.join(WD, "pool_live")
    os.makedirs(lwd, exist_ok=True)
    with open(os.path.join(os.path.dirname(os.path.dirname(os.path.abspath(__file__))), "specs", "Pool.tla")) as f:
        src = f.read()
    mut = src.replace('    /\\ wpc[w] = "unparkmain"\n    /\\ mtoken\' = TRUE', '    /\\ wpc[w] = "unparkmain"\n    /\\ mtoken\' = mtoken')
    for tag, text, expect_ok in (("as is", None, True), ("lost unpark of the executor thread", mut, False)):
        d = os.path.join(lwd, "mut" if text else "orig")
        os.makedirs(d, exist_ok=True)
        if text:
            with open(os.path.join(d, "Pool.tla"), "w") as f:
                f.write(text)
        mod, cfg = pooldefs.write_mc("chain", pooldefs.SCENARIOS["chain"], 2, d, invariants=["TypeOK"], **struct)
        with open(os.path.join(d, cfg)) as f:
            t = f.read().replace("SPECIFICATION Spec", "SPECIFICATION FairSpec") + "PROPERTIES Terminates\n"
        with open(os.path.join(d, cfg), "w") as f:
            f.write(t)
        r = run_tlc(mod, cfg, d, workers=4, timeout=900)
        record(f"Pool.tla {tag}: FairSpec => <>Finished is {'satisfied' if expect_ok else 'violated (TLC shows the stuttering counterexample)'}",
               r.ok == expect_ok and (expect_ok or "Terminates" in (r.violation or "")) and (text is None or mut != src))


def chan_part():
    import check_chan
    from framework import Check
    chk = Check("C12", "quick", 1)
    chk.violations = []
    orig = check_chan.norm_spec
    check_chan.channel_part.__globals__["norm_spec"] = orig
    # perturb what the specification expects for one observable: the replay must report it
    def bent(o, futs):
        d = orig(o, futs)
        if isinstance(o["swoken"], dict) is False and d["len"] == 1 and d["count"] == 1:
            d = dict(d, count=2)
        return d
    check_chan.channel_part.__globals__["norm_spec"] = bent
    try:
        mod, cfg = check_chan.write_mc("st", 1, [1, 2], 1, 4, WD)
        res = run_tlc(mod, cfg, WD, workers=4, timeout=300)
        from tla import parse_printed
        beh = [parse_printed(ln)[1] for ln in res.printed][:50]
        lines, rc, err = check_chan.harness(dict(cap=1, futs=[1, 2], max_recv=1,
                                                 behaviours=[[[o["op"], o["arg"]] for o in h] for h in beh]), WD, "st_chan")
        mism = sum(1 for h, g in zip(beh, lines)
                   if any(bent(eo["obs"], [1, 2]) != orig(go["obs"], [1, 2]) for eo, go in zip(h, g["ops"])))
        same = sum(1 for h, g in zip(beh, lines)
                   if all(eo["res"] == go["res"] and orig(eo["obs"], [1, 2]) == orig(go["obs"], [1, 2])
                          for eo, go in zip(h, g["ops"])))
    finally:
        check_chan.channel_part.__globals__["norm_spec"] = orig
    record("Channel histories replayed on the real channel agree with Channel.tla", rc == 0 and same == len(beh) and beh)
    record("a perturbed expected observable of Channel.tla is reported by the replay", mism > 0)


def coverage_part():
    """Vacuity guard: every action of SimCore is taken at least once in a bounded instance (TLC -coverage reports,
    per expression, how often it was evaluated: the last conjunct of an action is reached only when the action fires)."""
    b = SBENCHES["cancel"]
    mod, cfg = write_mc_module(b, WD, overrides=dict(MaxCmds=3))
    r = run_tlc(mod, cfg, WD, workers=8, timeout=900, coverage=True)
    src = open(os.path.join(os.path.dirname(OUT), "specs", "SimCore.tla")).read().splitlines()
    defs = [(i + 1, m.group(1)) for i, ln in enumerate(src) for m in [re.match(r"^([A-Z][A-Za-z]+)(\(.*\))? ==", ln)] if m]
    cov = {}
    for m in re.finditer(r"line (\d+), col \d+ to line \d+, col \d+ of module SimCore: (\d+)", r.output):
        ln, n = int(m.group(1)), int(m.group(2))
        cov[ln] = max(cov.get(ln, 0), n)
    acts = ["DSchedule", "DCancel", "DStep", "DStepUntil", "DProcess", "Pull", "DoSync", "HSkip", "HTake", "HStart",
            "HOp", "Quiesce", "DReturn"]
    for a in acts:
        start = next(l for l, n in defs if n == a)
        end = min([l for l, n in defs if l > start] + [len(src) + 1])
        lines = [l for l in cov if start < l < end]
        taken = bool(lines) and cov[max(lines)] > 0
        record(f"coverage: SimCore action {a} fires in the bounded instance", taken,
               f"last covered line {max(lines) if lines else '-'} count {cov[max(lines)] if lines else 0}")


def run():
    os.makedirs(WD, exist_ok=True)
    build_harness()
    simcore_part()
    bench_part()
    queue_part()
    task_part()
    ordering_part()
    queue_ra_part()
    slot_ra_part()
    crw_part()
    pool_part()
    chan_part()
    coverage_part()
    bad = [n for n, ok in results if not ok]
    with open(os.path.join(os.path.dirname(OUT), "evidence", "selftest.json"), "w") as f:
        json.dump(dict(results=[dict(name=n, ok=ok) for n, ok in results]), f, indent=1)
    print(f"selftest: {len(results) - len(bad)}/{len(results)} passed")
    return 1 if bad else 0
