"""TLC instances of MpscQueue.tla."""
import os

from tla import to_tla, to_tla_fn

INVARIANTS = ["Bounded", "NoCellRace", "NoUnreachable", "WriteIntoVacated", "PoppedOnce", "NothingInvented",
              "PerProducerFifo", "NoSkip", "LenWhenQuiescent", "ResultsOk"]


def ops(*names):
    return [dict(op=n) for n in names]


def write_mc(name, cap, prodops, consops, workdir, sequential=False, freeops=False, maxops=0, emit=False,
             nested=False):
    mod = f"MCq_{name}"
    os.makedirs(workdir, exist_ok=True)
    prods = sorted(prodops)
    with open(os.path.join(workdir, mod + ".tla"), "w") as f:
        f.write(f"---- MODULE {mod} ----\nEXTENDS MC_MpscQueue\n"
                f"c_Producers == {to_tla(set(prods))}\n"
                f"c_ProdOps == {to_tla_fn(prodops)}\n"
                f"c_ConsOps == {to_tla(consops)}\n====\n")
    cfg = ["SPECIFICATION Spec", "CONSTANTS", f"  Cap = {cap}", "  Producers <- c_Producers", "  ProdOps <- c_ProdOps",
           "  ConsOps <- c_ConsOps", f"  Sequential = {'TRUE' if sequential else 'FALSE'}",
           f"  FreeOps = {'TRUE' if freeops else 'FALSE'}", f"  MaxOps = {maxops}",
           f"  Nested = {'TRUE' if nested else 'FALSE'}",
           f"  Emit = {'TRUE' if emit else 'FALSE'}", "CHECK_DEADLOCK FALSE", "INVARIANTS",
           "  " + " ".join(INVARIANTS + ["EmitHist"])]
    with open(os.path.join(workdir, mod + ".cfg"), "w") as f:
        f.write("\n".join(cfg) + "\n")
    return mod, mod + ".cfg"


# concurrent instances: (name, capacity, producer programs, consumer program)
CONCURRENT = [
    ("c1_2p", 1, {"p1": ops("push", "push"), "p2": ops("push")},
     ops("pop", "release", "pop", "release", "pop", "len")),
    ("c2_2p", 2, {"p1": ops("push", "push"), "p2": ops("push")},
     ops("pop", "release", "pop", "release", "pop", "len")),
    ("c3_2p", 3, {"p1": ops("push", "push"), "p2": ops("push", "len")},
     ops("pop", "release", "pop", "release", "pop")),
    ("c2_close", 2, {"p1": ops("push", "push"), "p2": ops("close", "push")},
     ops("pop", "release", "pop", "release", "pop")),
    ("c1_cclose", 1, {"p1": ops("push", "push"), "p2": ops("push")},
     ops("pop", "close", "release", "pop", "release", "pop")),
    ("c3_3p", 3, {"p1": ops("push"), "p2": ops("push"), "p3": ops("push")},
     ops("pop", "release", "pop", "release", "pop")),
]

THOROUGH = [
    ("t2_2p", 2, {"p1": ops("push", "push"), "p2": ops("push", "push")},
     ops("pop", "release", "pop", "release", "pop", "release", "pop", "len")),
    ("t3_2p", 3, {"p1": ops("push", "push", "push"), "p2": ops("push")},
     ops("pop", "release", "pop", "release", "pop", "release", "pop")),
]

if __name__ == "__main__":
    import sys
    from tla import OUT, run_tlc
    wd = os.path.join(OUT, "mcq")
    for (name, cap, po, co) in CONCURRENT:
        if len(sys.argv) > 1 and name not in sys.argv[1:]:
            continue
        mod, cfg = write_mc(name, cap, po, co, wd)
        r = run_tlc(mod, cfg, wd, workers=12, timeout=300)
        print(name, "ok", r.ok, "distinct", r.distinct, "depth", r.depth, "wall %.1f" % r.wall)
        if not r.ok:
            print(r.violation)
            print("\n".join(r.trace[:150]))
            break


# --- QueueRA.tla: the queue on the release/acquire memory model --------------------------------------------------------
RA_INVARIANTS = ["NoDataRace", "FifoExactlyOnce"]
# (name, capacity, producers, push attempts per producer, pop attempts)
RA_QUICK = [("ra_c1_2p", 1, ["p1", "p2"], 2, 4), ("ra_c2_2p", 2, ["p1", "p2"], 2, 5)]
RA_THOROUGH = [("ra_c1_2p3", 1, ["p1", "p2"], 3, 6), ("ra_c3_1p", 3, ["p1"], 7, 8), ("ra_c3_2p", 3, ["p1", "p2"], 2, 5), ("ra_c2_3p", 2, ["p1", "p2", "p3"], 1, 4)]


def write_ra(name, consts, cap, producers, npush, npop, workdir, invariants=None):
    mod = f"MCra_{name}"
    os.makedirs(workdir, exist_ok=True)
    with open(os.path.join(workdir, mod + ".tla"), "w") as f:
        f.write(f"---- MODULE {mod} ----\nEXTENDS QueueRA\nc_Producers == {to_tla(set(producers))}\n====\n")
    cfg = ["SPECIFICATION Spec", "CONSTANTS", f"  Cap = {cap}", "  Producers <- c_Producers", f"  NPush = {npush}",
           f"  NPop = {npop}"]
    for k, v in consts.items():
        cfg.append(f"  {k} = " + (("TRUE" if v else "FALSE") if isinstance(v, bool) else f'"{v}"'))
    cfg += ["CHECK_DEADLOCK FALSE", "INVARIANTS", "  " + " ".join(invariants or RA_INVARIANTS)]
    with open(os.path.join(workdir, mod + ".cfg"), "w") as f:
        f.write("\n".join(cfg) + "\n")
    return mod, mod + ".cfg"
