"""Checks decided with Bench.tla: C02 C03 C04 C05 C06 C14 C16 (DESIGN.md sections 2.2, 6)."""
import copy
import json
import os
import random

import benchrun
from benchdefs import BENCHES, write_mc
from framework import TRUSTED, Check
from tla import OUT, ToolError, parse_printed, run_tlc

PROPS = {
    "C02": dict(benches=["chain", "triangle", "fanout"], caps=dict(quick=[1, 2], thorough=[1, 2, 3]),
                invariants=["CausalDelivery", "WithinCapacity"],
                # capacities that make the ring buffer wrap at other places (even but not a power of two, odd)
                extra_caps=dict(laps=dict(quick=[6], thorough=[5, 6, 10]))),
    "C03": dict(benches=["chain", "fanout", "arity_a", "arity_b", "arity_q", "volume", "query", "hier3", "sources"], caps=dict(quick=[1, 2], thorough=[1, 2, 3, 16]),
                invariants=["ExactlyOnce", "NothingInvented", "WithinCapacity"]),
    "C04": dict(benches=["chain", "triangle", "volume", "query", "saturate", "hier3"],
                caps=dict(quick=[1, 2], thorough=[1, 2, 3]), invariants=["QuiescentMeansDone", "ExactlyOnce"],
                confluent=True),
    "C05": dict(benches=["chain", "query", "saturate", "volume", "hier3"], caps=dict(quick=[1], thorough=[1, 2]),
                invariants=[]),
    "C06": dict(benches=["qloop", "qself", "saturate2", "saturate", "orphan", "orphan2", "panic_inflight", "hier", "qwrap0", "qwrap1", "qwrap2",
                         "qwrap3"],
                caps=dict(quick=[1, 2, 3], thorough=[1, 2, 3, 4, 5, 6, 7]), invariants=["QuiescentMeansDone"]),
    "C14": dict(benches=["query", "query6", "qpartial", "sources"], caps=dict(quick=[1, 2], thorough=[1, 2, 4]), invariants=[]),
    "C16": dict(benches=["hier", "hier3", "hpanic_P", "hpanic_P_a", "hpanic_P_b", "hpanic_P_a_x", "hpanic_Q",
                         "hanon_P_unknown", "hanon_P_unknown_x", "hanon_unknown"],
                caps=dict(quick=[2], thorough=[1, 2, 3]), invariants=["InitOnceFirst"]),
}
# part of C17 ("events sent by one model through one output reach a sink in sending order"): sink senders of outputs
C17_SINKS = dict(benches=["sinkmix", "fanout"], caps=dict(quick=[1, 2], thorough=[1, 2, 3]), invariants=[])
# part of C11 (failure attribution): the model named in a Panic raised at each position of a model hierarchy
C11_ATTRIBUTION = dict(benches=["hpanic_P", "hpanic_P_a", "hpanic_P_b", "hpanic_P_a_x", "hpanic_Q"],
                       caps=dict(quick=[2], thorough=[1, 2]), invariants=[])


# executor-level half of C04 / C06: invariants of Pool.tla checked by TLC and on traces of the real thread pool
POOL_INVARIANTS = {
    "C04": ["OkMeansQuiescent", "NoStrandedRun", "BusyIsActive", "OnePlace", "SearchingSane", "DeactAssert"],
    "C06": ["CountExact", "OkMeansQuiescent"],
}


def with_cap(b, cap):
    b2 = copy.deepcopy(b)
    b2["name"] = f"{b['name']}_c{cap}"
    for m in b2["models"]:
        b2["cap"][m] = cap
    return b2


def outcome_of(run):
    """Outcome of an implementation run in the same canonical form TLC prints for terminal states."""
    handled = {}
    sinks = {}
    r = None
    for e in run:
        if e.get("ev") == "hb":
            k = (e["m"], e["prog"], e["kind"])
            handled[k] = handled.get(k, 0) + 1
        elif e.get("ev") == "ret":
            r = e["res"]["r"]
            sinks = e.get("sinks", {})
    hs = sorted([list(k) + [v] for k, v in handled.items()])
    ss = {}
    for s, vals in sinks.items():
        c = {}
        for v in vals:
            c[v] = c.get(v, 0) + 1
        ss[s] = sorted([[v, n] for v, n in c.items()])
    return json.dumps(dict(r=r, handled=hs, sinks=ss), sort_keys=True)


def canon_tlc_outcome(o):
    hs = sorted([list(x) for x in o["handled"]])
    ss = {s: sorted([list(x) for x in v]) for s, v in (o["sinks"].items() if isinstance(o["sinks"], dict) else [])}
    return json.dumps(dict(r=o["r"], handled=hs, sinks=ss), sort_keys=True)


def strip_stray(run):
    """After a model panic on the thread pool the run returns while other workers may still finish the handler they
    were in: their events, logged between the failing return and the next command, belong to the aborted run."""
    if run[0].get("threads", 1) <= 1:
        return run
    out, skipping = [], False
    for e in run:
        ev = e.get("ev")
        if skipping and ev in ("hb", "he", "ss", "sd", "ib", "ie", "push", "pop"):
            continue
        if ev in ("cmd", "end", "hang", "crash"):
            skipping = False
        out.append(e)
        if ev == "ret" and e["res"].get("r") == "panic":
            skipping = True
    return out


def describe(rej):
    return f"{rej.reason} at event {rej.index}: {json.dumps(rej.event)[:300]}"


def task_part(chk, rng, thorough, wd):
    """Task-level half of C05: a model is one task, and a task is never polled by two threads at once (Task.tla, Safe);
    TLC explores the interleavings of the handle operations and real threads racing on the handles of one task are
    validated against Task_Trace.tla."""
    import check_task
    import taskdefs
    for name in ("pend_ready", "selfwake") if not thorough else sorted(taskdefs.SCRIPTS):
        script = taskdefs.SCRIPTS[name]
        mod, cfg = taskdefs.write_mc(f"c05_{name}", script, ["t1", "t2"], 6, wd, with_promise=False)
        res = run_tlc(mod, cfg, wd, workers=12, timeout=3000)
        chk.add_tlc(f"Task[{name}, 2 threads, 6 ops]", res)
        if not res.ok:
            raise ToolError(f"Task instance {name} violates {res.violation}")
    check_task.conc_part(chk, rng, thorough, wd, prefix="c05conc")


def clones_part(chk, thorough, wd):
    """Second half of C14: clones of a port share one connection list (PortClones.tla)."""
    import subprocess
    from check_seqds import tlc_behaviours
    from framework import HARNESS
    maxops = 7 if thorough else 6
    beh, res = tlc_behaviours("PortClones", dict(MaxClones=3, MaxOps=maxops), ["SharedLinks"], wd, "MCp_clones", workers=12)
    chk.add_tlc(f"PortClones[3 clones, {maxops} ops]", res)
    ip = os.path.join(wd, "clones.in.json")
    op = os.path.join(wd, "clones.out.ndjson")
    with open(ip, "w") as f:
        json.dump(dict(behaviours=[[dict(op=o["op"], c=o["c"]) for o in b] for b in beh]), f)
    p = subprocess.run([HARNESS, "clones", ip, op], stdout=subprocess.PIPE, stderr=subprocess.PIPE, text=True,
                       env=dict(os.environ, RUST_BACKTRACE="0"), timeout=600)
    if p.returncode != 0:
        raise ToolError("harness clones failed: " + p.stderr[-1500:])
    got = [json.loads(ln) for ln in open(op)]
    os.remove(ip)
    os.remove(op)
    bad = 0
    for b, g in zip(beh, got):
        exp = [o["reach"] for o in b]
        if exp != g:
            k = next(i for i in range(len(exp)) if exp[i] != g[i])
            if bad < 3:
                ops = [(o["op"], o["c"]) for o in b]
                chk.violation(f"port clones: after {ops[:k]} a send through clone {b[k]['c']} reached sinks {g[k]} but "
                              f"PortClones.tla requires {exp[k]} (every connection made through any clone so far)",
                              dict(engine="clones", ops=ops, expected=exp, observed=g),
                              signature=f"clones:{json.dumps(ops)}")
            bad += 1
    chk.traces += len(beh)
    chk.evaluations += len(beh)
    if beh:
        chk.sample(dict(kind="connect/send/clone sequence on clones of an Output", behaviour=beh[len(beh) // 2]))


def run(prop, tier, seed):
    chk = Check(prop, tier, seed)
    rng = random.Random(seed)
    return bench_loop(chk, prop, PROPS[prop], tier, rng, os.path.join(OUT, f"{prop}_{tier}"), finish=True)


def bench_loop(chk, prop, cfg, tier, rng, wd, finish=False):
    """TLC on every (bench, capacity) of cfg, schedule enumeration and free runs on the real crate, trace validation.
    Also called by the C11 check for the attribution of panics in model hierarchies."""
    thorough = tier == "thorough"
    dfs_cap = 6000 if thorough else 400
    nrand = 1500 if thorough else 150
    nfree = 400 if thorough else 60
    thread_counts = (2, 4, 16) if thorough else (2, 4)
    all_exhausted = True
    pairs = [(bn, cap) for bn in cfg["benches"] for cap in cfg["caps"][tier]] + \
            [(bn, cap) for bn, caps in cfg.get("extra_caps", {}).items() for cap in caps[tier]]
    for bn, cap in pairs:
        if True:
            b = with_cap(BENCHES[bn], cap)
            # 1. TLC: invariants of the property on every schedule of the bench; terminal outcomes
            mod, cf = write_mc(b, wd, emit=True)
            res = run_tlc(mod, cf, wd, workers=12, timeout=2400, tags=("OUTCOME",))
            chk.add_tlc(f"MC_Bench[{b['name']}]", res)
            if not res.ok:
                raise ToolError(f"Bench instance {b['name']} violates {res.violation}:\n" + "\n".join(res.trace[:80]))
            outcomes = {canon_tlc_outcome(parse_printed(ln)[1]) for ln in res.printed}
            if cfg.get("confluent") and len(outcomes) != 1:
                raise ToolError(f"bench {b['name']} is expected to be confluent but the specification has "
                                f"{len(outcomes)} terminal outcomes")
            # 2. every schedule of the single-threaded executor (pick hook + yield points), then random ones
            runs, summary, inc = benchrun.run_bench(b, wd, f"dfs_{b['name']}", mode="dfs", threads=1,
                                                    max_runs=dfs_cap, yields=True)
            exhausted = bool(summary and summary.get("exhausted"))
            all_exhausted = all_exhausted and exhausted
            sources = [("st-all-schedules" if exhausted else f"st-dfs-prefix({len(runs)})", runs, inc)]
            if not exhausted:
                r2, _, inc2 = benchrun.run_bench(b, wd, f"rnd_{b['name']}", mode="random", threads=1, max_runs=nrand,
                                                 seed=rng.randrange(1 << 30), yields=True, first_id=100000)
                sources.append(("st-random-schedules", r2, inc2))
            # schedules at task granularity only (no yield points): what the executor does by itself
            r3, _, inc3 = benchrun.run_bench(b, wd, f"dfsny_{b['name']}", mode="dfs", threads=1, max_runs=dfs_cap,
                                             yields=False, first_id=200000)
            sources.append(("st-task-granularity", r3, inc3))
            # 3. free runs on the thread pool, with and without seeded delays at the hook points
            fid = 300000
            for th in thread_counts:
                for delay in (0, 200):
                    r4, _, inc4 = benchrun.run_bench(b, wd, f"mt{th}_{delay}_{b['name']}", mode="free", threads=th,
                                                     max_runs=nfree, seed=rng.randrange(1 << 30), delay_us=delay,
                                                     first_id=fid)
                    fid += 10000
                    sources.append((f"mt({th}) free" + (" +delays" if delay else ""), r4, inc4))
            allruns = []
            for src, rs, incident in sources:
                for r in rs:
                    r[0]["src"] = src
                allruns.extend(strip_stray(r) for r in rs)
            if not allruns:
                continue
            acc, rej, st = benchrun.validate(b, allruns, wd, f"v_{b['name']}", invariants=cfg["invariants"],
                                             chunk_events=20000, parallel=12)
            chk.add_trace_stats(f"{b['name']}: " + ", ".join(f"{src}={len(rs)}" for src, rs, _ in sources),
                                acc + len(rej), st)
            chk.evaluations += len(allruns)
            for rj in rej:
                hdr = rj.run[0]
                what = (f"execution of the real crate is not a behaviour of Bench ({hdr.get('src')}, bench {b['name']}, "
                        f"{hdr.get('threads')} thread(s)): {describe(rj)}")
                chk.violation(what, dict(engine="bench", bench=b, header=hdr, rejected_at=rj.index,
                                         event=rj.event, trace=rj.run[:rj.index + 1][-60:]),
                              signature=f"{b['name']}:{rj.reason}:{json.dumps(rj.event, sort_keys=True)[:200]}")
            # differential part of C04: the outcome of every accepted run is one the specification has
            if not rej:
                for r in allruns:
                    if r[-1].get("ev") != "end":
                        continue
                    o = outcome_of(r)
                    if o not in outcomes:
                        chk.violation(f"outcome of a run ({r[0].get('src')}, bench {b['name']}) is not a terminal "
                                      f"outcome of the specification: {o[:300]}",
                                      dict(engine="bench", bench=b, header=r[0], trace=r[-60:]),
                                      signature=f"{b['name']}:outcome:{o[:200]}")
                        break
            t = allruns[len(allruns) // 3]
            chk.sample(dict(source=t[0].get("src"), bench=b["name"], header=t[0], trace=t[1:16]))
    if not finish:
        return all_exhausted
    if prop == "C14":
        clones_part(chk, thorough, wd)
        import check_taskset
        check_taskset.taskset_part(chk, thorough, wd)
        # the same property under concurrency: CachedRwLock.tla at lock / epoch granularity, structure extracted from
        # the source, real threads on clones of one Output validated against CachedRwLock_Trace.tla
        import crwdefs
        crwdefs.crw_part(chk, rng, thorough, wd)
        # beyond the property's anchors: the one-shot slot that carries the replies of driver-side queries
        # (process_query, QuerySource actions) on the release/acquire memory model
        import slotdefs
        slotdefs.slot_part(chk, thorough, wd)
    if prop == "C05":
        task_part(chk, rng, thorough, wd)
        # a Runnable duplicated by the executor's queues (overflow of the local queue into the injector, stealing) would
        # let two workers poll one task: bursts beyond the local queue's capacity and rings on the real thread pool,
        # every woken task polled exactly once
        import check_pool
        check_pool.pool_part(chk, rng, thorough, wd, [], only_big=True)
    if prop in POOL_INVARIANTS:
        import check_pool
        check_pool.pool_part(chk, rng, thorough, wd, POOL_INVARIANTS[prop])
    if prop == "C06":
        # the in-flight message count at the level of one channel: Channel.tla (CountExact), histories replayed
        import check_chan
        check_chan.channel_part(chk, thorough, wd)
    chk.exhaustive = all_exhausted
    chk.assumptions = TRUSTED + [
        "wake-ups are not modelled at this layer; here a lost wake-up shows as a run that stalls where the specification "
        "does not (the task state machine is Task.tla, the thread pool's protocol Pool.tla)",
        "multi-threaded runs are free-running (seeded delays at hook points), i.e. sampled, not enumerated",
    ]
    return chk.finish(rule="TLC explores every schedule of each bench at channel-operation granularity and checks the "
                           "property's invariants; on the real crate every schedule of the single-threaded executor is "
                           "enumerated through the pick hook (with and without yield points at channel sends) up to the "
                           "stated cap, then seeded random schedules and free multi-threaded runs; every recorded "
                           "execution must be a behaviour of Bench.tla and end in an outcome the specification has")
