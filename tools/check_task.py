"""C13 (and the task-level part of C05): Task.tla - all interleavings of the atomic steps of the handle operations,
sequential histories replayed on the real task, executions of real threads validated against the specification."""
import json
import os
import random
import subprocess

import taskdefs
from framework import HARNESS, TRUSTED, Check
from tla import OUT, ToolError, parse_printed, run_tlc, to_tla, confirm_rejection

OPS = ["run", "drop_runnable", "wake", "wake_by_ref", "clone_waker", "drop_waker", "cancel", "drop_token",
       "poll_promise", "drop_promise"]


def harness(inp, wd, tag):
    os.makedirs(wd, exist_ok=True)
    ip = os.path.join(wd, tag + ".in.json")
    op = os.path.join(wd, tag + ".out.ndjson")
    with open(ip, "w") as f:
        json.dump(inp, f)
    try:
        p = subprocess.run([HARNESS, "task", ip, op], stdout=subprocess.PIPE, stderr=subprocess.PIPE, text=True,
                           env=dict(os.environ, RUST_BACKTRACE="0"), timeout=300, errors="replace")
        rc, err = p.returncode, p.stderr[-500:]
    except subprocess.TimeoutExpired:
        rc, err = -9, "timed out (hang)"
    lines = []
    with open(op, errors="replace") as f:
        for ln in f:
            try:
                lines.append(json.loads(ln))
            except ValueError:
                break  # a line cut short by a crash of the harness process
    os.remove(ip)
    os.remove(op)
    if rc != 0:
        return lines, f"harness exited with {rc}: {err}"
    return lines, None


def cmp_obs(exp, got):
    # the output (a value that counts its drops) is released exactly once iff the specification has it taken or dropped
    out_drops = 1 if (exp["outTaken"] or exp["outDropped"]) else 0
    return all(exp[k] == got[k] for k in ("futDropped", "outTaken", "npolls", "runq")) and got.get("outDrops", out_drops) == out_drops


def validate(script, with_promise, threads, runs, wd, tag):
    mod = f"Trt_{tag}"
    with open(os.path.join(wd, mod + ".tla"), "w") as f:
        f.write(f"---- MODULE {mod} ----\nEXTENDS Task_Trace\nc_Threads == {to_tla(set(threads))}\n"
                f"c_Script == {to_tla(script)}\n====\n")
    with open(os.path.join(wd, mod + ".cfg"), "w") as f:
        f.write("SPECIFICATION TraceSpec\nCONSTANTS\n  Threads <- c_Threads\n  Script <- c_Script\n"
                f"  WithPromise = {'TRUE' if with_promise else 'FALSE'}\n  MaxOps = 1000\n  Sequential = FALSE\n"
                "CONSTRAINT Track\nPOSTCONDITION TraceAccepted\nCHECK_DEADLOCK FALSE\nINVARIANTS\n  Safe NoEarlyFree\n")
    stats = dict(states=0, transitions=0, wall=0.0, events=0)
    rejections, accepted = [], 0
    remaining = list(runs)
    rnd = 0
    while remaining and len(rejections) < 4:
        rnd += 1
        path = os.path.join(wd, f"{tag}_v{rnd}.ndjson")
        with open(path, "w") as f:
            for r in remaining:
                for e in r:
                    f.write(json.dumps(e) + "\n")
        res = run_tlc(mod, mod + ".cfg", wd, workers=1, timeout=900, dfs=True, heap="4g", env_extra={"TRACE": path},
                      tags=("TRACE_REJECTED",), metaname=tag)
        stats["states"] += res.distinct
        stats["transitions"] += res.generated
        stats["wall"] += res.wall
        os.remove(path)
        if res.ok:
            accepted += len(remaining)
            stats["events"] += sum(len(r) for r in remaining)
            break
        if res.violation and res.violation.startswith("Invariant"):
            ls = [ln for ln in res.trace if ln.startswith("/\\ l = ")]
            n = int(ls[-1].split("=")[1]) - 2 if ls else 0
            reason = "invariant:" + res.violation.split()[1]

        elif res.printed:
            n = int(res.printed[-1].split(",")[1].strip())
            reason = "unmatched"
        else:
            raise ToolError("unexpected TLC outcome: %s\n%s" % (res.violation, res.output[-2000:]))
        pos = 0
        for i, r in enumerate(remaining):
            if n < pos + len(r):
                accepted += i
                k = n - pos
                remaining = remaining[i + 1:]
                if confirm_rejection(mod, mod + ".cfg", wd, tag, r, res, heap="4g"):
                    rejections.append((r, k, r[k] if k < len(r) else None, reason))
                else:
                    accepted += 1
                break
            pos += len(r)
        else:
            raise ToolError("rejection index outside the trace")
    return accepted, rejections, stats


def split_resets(lines):
    runs = []
    for e in lines:
        if e.get("ev") == "reset":
            runs.append([e])
        elif runs:
            runs[-1].append(e)
    return runs


def conc_part(chk, rng, thorough, wd, prefix="conc"):
    """Real threads racing on the handles of one task, validated against Task_Trace.tla (also used by C05: two threads
    polling one task at once is rejected by Safe, or kills the harness process)."""
    scripts = taskdefs.SCRIPTS
    nprog = 40 if thorough else 10
    rep = 200 if thorough else 40
    for name, script in sorted(scripts.items()):
        for wp in (True, False):
            progs = []
            for _ in range(nprog):
                nt = rng.choice((2, 2, 3))
                prog = []
                for ti in range(nt):
                    ops = [rng.choice(OPS if wp else OPS[:8]) for _ in range(rng.randint(2, 4))]
                    if ti == 0:
                        ops = ["run"] + ops
                    prog.append(ops)
                progs.append(prog)
            tag = f"{prefix}_{name}_{int(wp)}"
            lines, err = harness(dict(mode="conc", script=script, with_promise=wp, programs=progs, repeat=rep), wd, tag)
            runs = split_resets(lines)
            if err:
                chk.violation(f"the harness process died while real threads raced on the handles of a task ({name}): {err}",
                              dict(engine="task", script=script, with_promise=wp, last=runs[-1] if runs else None),
                              signature=f"conccrash:{name}:{wp}")
            runs = [r for r in runs if r and r[-1].get("ev") == "final"]
            acc, rej, st = validate(script, wp, ["t1", "t2", "t3"], runs, wd, tag)
            chk.add_trace_stats(f"real threads [{name}, promise={wp}]", acc + len(rej), st)
            chk.evaluations += len(runs)
            for (r, k, ev, reason) in rej:
                chk.violation(f"execution of real threads on a task ({name}, promise={wp}) is not a behaviour of "
                              f"Task.tla: {reason} at event {k}: {json.dumps(ev)}",
                              dict(engine="task", script=script, with_promise=wp, trace=r[:k + 1]),
                              signature=f"conc:{name}:{wp}:{reason}:{json.dumps(ev)}")
            if runs:
                chk.sample(dict(kind="real threads", script=name, trace=runs[len(runs) // 2][:16]))


def run(prop, tier, seed):
    chk = Check(prop, tier, seed)
    rng = random.Random(seed)
    thorough = tier == "thorough"
    wd = os.path.join(OUT, f"{prop}_{tier}")
    scripts = taskdefs.SCRIPTS
    # 1. every interleaving of the atomic steps
    for name, script in sorted(scripts.items()):
        for wp in (True, False):
            th = ["t1", "t2", "t3"] if thorough else ["t1", "t2"]
            mod, cfg = taskdefs.write_mc(f"{name}_{int(wp)}", script, th, 6 if not thorough else 6, wd, with_promise=wp)
            res = run_tlc(mod, cfg, wd, workers=14, timeout=3000)
            chk.add_tlc(f"Task[{name}, promise={wp}, {len(th)} threads, 6 ops]", res)
            if not res.ok:
                raise ToolError(f"Task instance {name} violates {res.violation}:\n" + "\n".join(res.trace[:60]))
    # 2. every sequential history, replayed on the real task
    maxops = 8 if thorough else 7
    for name, script in sorted(scripts.items()):
        for wp in (True, False):
            tag = f"seq_{name}_{int(wp)}"
            mod, cfg = taskdefs.write_mc(tag, script, ["t1"], maxops, wd, with_promise=wp, sequential=True, emit=True)
            res = run_tlc(mod, cfg, wd, workers=14, timeout=3000)
            chk.add_tlc(f"Task sequential histories [{name}, promise={wp}, {maxops} ops]", res)
            if not res.ok:
                raise ToolError(f"Task sequential instance violates {res.violation}")
            seen, beh = set(), []
            for ln in res.printed:
                b = parse_printed(ln)[1]
                key = json.dumps([o["op"] for o in b["ops"]])
                if key not in seen:
                    seen.add(key)
                    beh.append(b)
            lines, err = harness(dict(mode="seq", script=script, with_promise=wp,
                                      behaviours=[[o["op"] for o in b["ops"]] for b in beh]), wd, tag)
            if err:
                chk.violation(f"the harness process died while replaying handle-operation sequences ({name}): {err}",
                              dict(engine="task", script=script, with_promise=wp), signature=f"seqcrash:{name}:{wp}")
            bad = 0
            for b, g in zip(beh, lines):
                ok = len(b["ops"]) == len(g["ops"]) and cmp_obs(b["final"], g["final"]) and \
                    g["final"].get("futDrops", 0) <= 1 and g["final"].get("concurrentPolls", 0) == 0
                k = None
                for i, (eo, go) in enumerate(zip(b["ops"], g["ops"])):
                    if eo["res"] != go["res"] or not cmp_obs(eo["pre"], go["pre"]):
                        ok, k = False, i
                        break
                if not ok:
                    if bad < 3:
                        ops = [o["op"] for o in b["ops"]]
                        chk.violation(f"task ({name}, promise={wp}): after {ops[:k] if k is not None else ops} the real task "
                                      f"shows {g['ops'][k] if k is not None else g['final']} where Task.tla requires "
                                      f"{b['ops'][k] if k is not None else b['final']}",
                                      dict(engine="task", script=script, with_promise=wp, ops=ops, expected=b, observed=g),
                                      signature=f"seq:{name}:{wp}:{json.dumps(ops)}")
                    bad += 1
            chk.traces += len(beh)
            chk.evaluations += len(beh)
            if beh:
                chk.sample(dict(kind="sequential handle operations", script=name, with_promise=wp,
                                history=beh[len(beh) // 2]))
    # 3. real threads racing on the handles of one task
    conc_part(chk, rng, thorough, wd)
    chk.exhaustive = True
    chk.assumptions = TRUSTED + [
        "interleaving (sequentially consistent) semantics; the memory orderings of the state word are not decided",
        "release of the task's memory and of the output is decided in the model (ghost ownership state); at run time "
        "the harness observes the future's drop count, concurrent polls, poll counts, queued Runnables and promise "
        "results (the facade fixes the output type to u64, which has no destructor)",
    ]
    return chk.finish(rule="TLC explores every interleaving of the atomic steps of run / wake / wake_by_ref / clone / drop / "
                           "cancel / promise poll for 2-3 threads and 6 operations over six future scripts (pending, "
                           "self-waking, cloning, ready, panicking, never completing); every sequential sequence of handle "
                           "operations up to the bound is replayed on the real task and each observable compared; real "
                           "threads racing on the handles are validated against Task_Trace.tla")
