#!/usr/bin/env python3
"""Writes /verif/MANIFEST.json from the table below (kept in one place so that it stays valid)."""
import json
import os
import subprocess

VERIF = os.path.dirname(os.path.dirname(os.path.abspath(__file__)))

SIMCORE_NOTE = ("Trusted: TLC/SANY, the Rust harness and Python drivers. Bounded TLC instances (2 models, horizon <= 8, "
                "<= 6 driver commands); beyond them only sampled traces. Mailbox capacity and task schedules are "
                "abstracted here (one FIFO per recipient and sending task) and decided by the Bench/Pool layers.")

CHECKS = {
    "C01": dict(spec="SimCore.tla (SimCore_Props: PendingStrictlyFuture, FiresAtDeadline, ChronologicalOrder, StepPost, "
                     "ExactFirings, TimeMonotone)",
                text="TLC checks the chronological-execution invariants exhaustively on bounded instances of SimCore "
                     "(every driver command sequence up to the bound, handlers that schedule, cancel and send); every "
                     "TLC-generated behaviour and seeded random command sequences are executed on the real crate (1 and "
                     "2-4 worker threads, nanosecond grids crossing second boundaries) and each recorded trace must be a "
                     "behaviour of the specification with the invariants holding in every state; so must runs in which a "
                     "second thread issues scheduling requests through a Scheduler clone while the main thread steps.",
                design="6/C01", note=SIMCORE_NOTE),
    "C07": dict(spec="SimCore.tla (SameOriginFifo, ExactFirings)",
                text="TLC checks same-origin FIFO among same-deadline events (one-shot, keyed, periodic, two origins) on "
                     "bounded instances; generated behaviours and random drivers biased to same-deadline bursts are run on "
                     "the real crate (ST and MT) and validated against the specification, which keeps one FIFO per origin "
                     "group and recipient.",
                design="6/C07", note=SIMCORE_NOTE),
    "C08": dict(spec="SimCore.tla (ScheduleValidated, ExactFirings, PendingStrictlyFuture; SchedOutcomes)",
                text="TLC enumerates the validation matrix (request kind x absolute/relative deadline in past/present/future "
                     "x period zero/non-zero, from the driver, from handlers and through event-source actions); each "
                     "call's return value and the later firings recorded from the real crate must match the specification; "
                     "a stepping call that does not return is detected by a watchdog and reported.",
                design="6/C08", note=SIMCORE_NOTE),
    "C09": dict(spec="SimCore.tla (NoFireAfterCancel, CancelIsLocal, ExactFirings; HTake/HSkip)",
                text="TLC checks that no occurrence is processed after its key was cancelled (driver, same-model earlier "
                     "event, other model, clone, auto-key drop; event-source actions up to the start of their step) and "
                     "that other actions are unaffected; traces of the real crate are validated with the take point of a "
                     "keyed event inferred by TLC.",
                design="6/C09", note=SIMCORE_NOTE),
    "C10": dict(spec="SimCore.tla (ExactFirings = closed form first + k*per, ChronologicalOrder)",
                text="TLC checks the closed form of periodic firings under every partition of the horizon into "
                     "step/step_until commands; all generated partitions and random partitions with periods down to one "
                     "tick (1 ns) are run on the real crate and validated.",
                design="6/C10", note=SIMCORE_NOTE),
    "C11": dict(spec="SimCore.tla (TerminatedSticky, NonFatalKeepsUsable; Quiesce/Abort/Return classification)",
                text="TLC enumerates every fault kind (panic, missing recipient from a model and from the scheduler, "
                     "deadlock, message loss, time-out, clock lag, bad query, invalid deadline) at every position of a "
                     "driver sequence followed by every follow-up call; the result of every call on the real crate (ST and "
                     "MT) must be the one the specification classifies, and after a fatal error nothing may change; the model "
                     "named by a Panic raised at each position of a model hierarchy is decided on the Bench layer "
                     "(Bench.tla, hpanic benches).",
                design="6/C11", note=SIMCORE_NOTE + " Time-out uses wall-clock margins (500 ms vs 2000 ms)."),
    "C18": dict(spec="SimCore.tla (SyncMonotone, SyncBeforeCompute, SyncCoversNow, SyncOncePerNewTime, OutOfSyncGates)",
                text="TLC checks the synchronisation discipline for all event sets, step/step_until partitions, scripted "
                     "lags and tolerances on bounded instances; a recording Clock in the harness logs every synchronize "
                     "call in the same total order as handler starts, and every trace must be a behaviour of the "
                     "specification (sync exactly once per new time, before any handler of that time, OutOfSync gating).",
                design="6/C18", note=SIMCORE_NOTE),
}

SEQ_NOTE = ("Trusted: TLC/SANY, the Rust harness. Exhaustive up to the stated operation-sequence length over a small "
            "alphabet; longer histories by seeded sampling. Concurrent use of a sink from several threads is not covered.")
CHECKS.update({
    "C17": dict(engine="seqds", spec="Sinks.tla (Bounded, Increasing; Write/Next/Drain/Open/Close)",
                text="TLC enumerates every sequence of write/next/drain/open/close operations up to the length bound for "
                     "EventBuffer capacities 1..3 and EventSlot with both constructors, together with the value each "
                     "operation must return; every such behaviour is replayed on the real sink and every returned value "
                     "compared (one implementation test per specification behaviour).",
                design="6/C17", note=SEQ_NOTE),
    "C20": dict(engine="seqds", spec="PQ.tla, PQ_Trace.tla (minimum of (key, epoch); handle designates its own entry only)",
                text="TLC enumerates every sequence of insert/pull/peek/extract operations (with retained and stale "
                     "handles, hence slot reuse) up to the length bound and the value each must return; all are replayed "
                     "on the real PriorityQueue and IndexedPriorityQueue; long seeded sequences (over a thousand live entries, complete "
                     "drains, insertion counts beyond 2^16 through the churn action, 70 000 / 140 000 live entries through the "
                     "ballast action with extractions deep in the heap) are validated against PQ_Trace.tla.",
                design="6/C20", note=SEQ_NOTE),
})

BENCH_NOTE = ("Trusted: TLC/SANY, the Rust harness (scripted models, schedule controller on the pick/yield hooks), the "
              "Python drivers. Benches of 2-4 models, capacities 1-4 (16 in the thorough tier), <= 6 port operations per "
              "handler. Single-threaded schedules are enumerated exhaustively up to a cap and then sampled; "
              "multi-threaded runs (2, 4, 16 workers) are free-running with seeded delays at hook points. Wake-up, task "
              "and pool protocols below this layer are decided by their own specifications.")
CHECKS.update({
    "C02": dict(engine="bench", spec="Bench.tla (CausalDelivery with ghost vector clocks, WithinCapacity)",
                text="TLC checks causal delivery on every schedule of chain / triangle / fan-out benches with capacities "
                     "1..3 (senders suspended on full mailboxes); every schedule of the real single-threaded executor is "
                     "enumerated through the pick hook with yield points at channel sends, plus random schedules and "
                     "free multi-threaded runs, and every recorded execution (message identities, pushes, pops, "
                     "handler starts) must be a behaviour of the specification, whose mailboxes are FIFO.",
                design="6/C02", note=BENCH_NOTE),
    "C03": dict(engine="bench", spec="Bench.tla (ExactlyOnce, NothingInvented, WithinCapacity)",
                text="TLC checks that at every completed run the multiset of processed messages equals the multiset of "
                     "accepted sends (plain/map/filter_map, models and sinks, volumes above capacity); every execution of "
                     "the real crate under enumerated schedules and free multi-threaded runs must be a behaviour of the "
                     "specification: each handler start must name a message that is at the head of that mailbox, a "
                     "run may return Ok only when nothing is left, and sink contents must match.",
                design="6/C03", note=BENCH_NOTE),
    "C04": dict(engine="bench", spec="Bench.tla (QuiescentMeansDone, ExactlyOnce, terminal outcomes), Pool.tla "
                                     "(OkMeansQuiescent, NoStrandedRun, BusyIsActive, OnePlace; liveness FairSpec => <>Finished), Pool_Trace.tla",
                text="TLC checks that the executor can only return Ok when no message is queued and no handler is "
                     "half-way, and computes the terminal outcomes of every schedule (a singleton for the confluent "
                     "benches); all single-threaded schedules and free runs on 2/4/16 workers with delays at the pool "
                     "protocol points must be behaviours of the specification and end in that outcome; hangs are caught "
                     "by a watchdog. Pool.tla specifies the thread pool at shared-access granularity (activation bit set, "
                     "park tokens, LIFO slot, local queues with overflow, stealing, injector buckets and hint flag); its "
                     "structural parameters are extracted from the source, TLC explores every interleaving of the "
                     "scenarios, the scenarios run on the real pool under a delay sweep and every execution is validated "
                     "against Pool_Trace.tla; bursts of wake-ups beyond the local queue's capacity must complete. Under weak "
                     "fairness of every thread TLC also checks the temporal property that every run() and the drop of the "
                     "executor return (Terminates) on the full state graph of each scenario.",
                design="6/C04", note=BENCH_NOTE + " Pool.tla: 2-3 workers, 3-6 tasks; st3's queue abstracted to a "
                                                  "sequence; no time-outs; the extraction of structural parameters is a "
                                                  "narrow recogniser (exit 2 when it does not understand the source)."),
    "C05": dict(engine="bench", spec="Bench.tla (task state machine: one message at a time per model), Task.tla (Safe: "
                                     "polls of one task never overlap), Task_Trace.tla",
                text="Every harness model carries a busy flag (set at init/handler entry, cleared at exit, under the log "
                     "mutex); the trace specification only accepts a handler start when the model is idle and has taken "
                     "exactly that message, so overlapping computations of one model are rejected; checked under all "
                     "enumerated single-threaded schedules and free multi-threaded runs with delays. At task level TLC "
                     "explores the interleavings of the handle operations of Task.tla and real threads racing on the "
                     "handles of one task are validated against Task_Trace.tla.",
                design="6/C05", note=BENCH_NOTE),
    "C06": dict(engine="bench", spec="Bench.tla (Quiesce classification: Deadlock list / MessageLoss count / Ok), Pool.tla "
                                     "(CountExact), Channel.tla (CountExact)",
                text="TLC explores every schedule of query loops, saturating loops, orphan mailboxes and sub-model "
                     "deadlocks; the error returned by the real crate (kind, qualified model names, exact mailbox "
                     "sizes, lost-message count) must be the one the specification derives from its mailbox contents at "
                     "the stall, and runs that complete must return Ok - on all enumerated schedules and on 2/4/16 "
                     "workers with delays at the deactivation/fold/park points. The in-flight message count is also decided "
                     "at executor level (Pool.tla: the count read by run() is exact on every interleaving; traces of the "
                     "real pool) and at channel level (Channel.tla histories replayed, count compared after every poll).",
                design="6/C06", note=BENCH_NOTE),
    "C14": dict(engine="bench", spec="Bench.tla (OpStart/Push/HE/OpDone for queries: one reply per accepted replier, in "
                                     "connection order), PortClones.tla (SharedLinks), TaskSet.tla (WellFormed, NoLostTask, "
                                     "NoLostNotify), CachedRwLock.tla + CachedRwLock_Trace.tla (SeesCompletedConnects, NothingInvented, "
                                     "CacheCoherent), SlotRA.tla (Safe, ValueOnce, NoLeak)",
                text="TLC explores every completion order of 0..6 repliers with filtered subsets; on the real crate the "
                     "reply vector returned by Requestor::send (each reply encodes the replier, the mapped request and "
                     "the connection's reply map) must equal the specification's under every enumerated schedule and "
                     "free multi-threaded runs. Clones under concurrency: CachedRwLock.tla at lock/epoch granularity with "
                     "the structure (epoch bumped under the lock, refresh under the lock) extracted from the source, all "
                     "interleavings of connect/send on 2-3 clones; real threads owning one clone each connect sinks and "
                     "send in simultaneous rounds and every recorded execution is validated against "
                     "CachedRwLock_Trace.tla. Beyond the anchors: the one-shot slot that carries the replies of "
                     "driver-side queries (util/slot.rs) is decided on SlotRA.tla, a release/acquire model instantiated "
                     "with the orderings read from the source (data races on the value, racy or double deallocation, "
                     "use after free, leaks).",
                design="6/C14", note=BENCH_NOTE + " Port-clone sharing is PortClones.tla (sequential histories); TaskSet.tla "
                                                  "is model-checked at atomic level and bound by sequential replay; "
                                                  "CachedRwLock.tla has interleaving semantics (its epoch accesses are Relaxed in the code)."),
    "C16": dict(engine="bench", spec="Bench.tla (InitOnceFirst; qualified names in handler contexts and reports)",
                text="TLC explores every schedule of SimInit::init on hierarchies of depth <= 3 whose init scripts send "
                     "events and queries to models that are not initialised yet; on the real crate init must run once "
                     "per model, before any of its handlers, messages sent earlier must be processed afterwards, and the "
                     "name seen in Context::name() and in error reports must be the qualified one.",
                design="6/C16", note=BENCH_NOTE),
})

CHECKS.update({
    "C12": dict(engine="queue", spec="QueueRA.tla (release/acquire memory model: NoDataRace, FifoExactlyOnce), MpscQueue.tla (Bounded, NoCellRace, NoUnreachable, PoppedOnce, PerProducerFifo, NoSkip, "
                                    "LenWhenQuiescent, ResultsOk), MpscQueue_Trace.tla, Channel.tla (Bounded, Lossless, "
                                    "CountExact, NoStuckSender, NoStuckReceiver)",
                text="The memory orderings of every atomic operation of push/pop/MessageBorrow::drop and the program order of "
                     "cell access and stamp publication are read from queue.rs and instantiate QueueRA.tla, a view-based "
                     "release/acquire model on which TLC decides that no message cell is accessed by a thread not entitled "
                     "to see its latest write (any weakened ordering yields a counterexample). "
                     "The queue's push/pop/release/close/len are transcribed at atomic-operation granularity with the "
                     "code's own position/stamp arithmetic; TLC explores every interleaving for capacities 1-3 and 2-3 "
                     "producers; every sequential operation history up to the bound is replayed on the real queue (V1 "
                     "facade) and each result compared; executions of real producer/consumer threads are logged as "
                     "start/end events and must be linearisable with respect to the atomic-step specification (TLC "
                     "searches the interleaving). The wake-up protocol (suspended senders' FIFO wait set, receiver waker, "
                     "close) is Channel.tla at the granularity of one poll of a future: every history up to the bound is "
                     "replayed on the real channel with counting wakers and every observable compared.",
                design="6/C12", note="Trusted: TLC/SANY, harness, the pattern-matching extractor of orderings. QueueRA.tla has no load "
                                     "buffering, append-only modification orders and no close(); MpscQueue.tla is sequentially "
                                     "consistent. Channel.tla is sequential (one polling thread): concurrent "
                                     "interleavings of the wake-up protocol are exercised end to end by the Bench checks "
                                     "(lost wake-up = stall), not enumerated."),
    "C19": dict(engine="simcore", spec="SimCore_Trace.tla (TDrop: balanced release of models, messages, handler futures; "
                                      "threads joined; no model code afterwards), SimCore.tla for the prefixes, Pool.tla "
                                      "(DropReturns, NoDropOutsideWorker)",
                text="The simulation, with its scheduler handle, addresses, event sources and keys, is dropped after every "
                     "prefix of the TLC-generated driver sequences (idle, pending scheduled actions, after each kind of "
                     "failure), after random prefixes and after a failure with senders suspended on capacity-1 mailboxes, "
                     "on 1-16 threads with a delay sweep over the pool hook points. Drop-counting tokens in every model, "
                     "message and handler future and the process's thread count are recorded in a `drop` event that must "
                     "satisfy TDrop; a drop that does not return is caught by a watchdog. The executor's abort/join sequence "
                     "is decided on Pool.tla (TLC, and traces of the real pool dropped after every scenario).",
                design="6/C19", note=SIMCORE_NOTE + " Release is observed through tokens and thread counts, not by a "
                                                    "memory checker."),
})

CHECKS.update({
    "C13": dict(engine="task", spec="Task.tla (Safe: exclusive poll, no poll after completion, future/output/allocation "
                                   "released at most once, no use after free; RefsExact, RunnableConsistent, NoLostWake, "
                                   "NoLeak, NoEarlyFree), Task_Trace.tla",
                text="Every read-modify-write of the task state word in run / wake / wake_by_ref / clone / drop / cancel / "
                     "promise poll is one specification step, with ghost ownership of the future, the output and the "
                     "allocation; TLC explores all interleavings of 2-3 threads x 6 operations over six future scripts; "
                     "every sequential sequence of handle operations is replayed on the real task (V1 facade: drop "
                     "counters, poll counters, queued Runnables, promise results) and real threads racing on the handles "
                     "are validated against the specification by trace validation.",
                design="6/C13", note="Trusted: TLC/SANY, harness. Interleaving semantics (no weak-memory effects). Release of "
                                     "memory and of the output is decided on ghost state in the model; a crash of the harness "
                                     "process under racing threads is reported as a violation."),
    "C15": dict(engine="seqlock", spec="SeqLock.tla on a view-based release/acquire memory model (NotTorn, Monotone, "
                                      "NotOlderThanPublished, ValuesWritten), SeqLock_Trace.tla",
                text="The ordering of every atomic operation of the time cell is extracted from the current source and "
                     "passed to TLC as constants; TLC explores every interleaving and every admissible reads-from choice "
                     "of one writer and 1-2 readers; reader threads using Scheduler::time() while the main thread steps, "
                     "with delays between the two word stores/loads, are validated against SeqLock_Trace.tla.",
                design="6/C15", note="Trusted: TLC/SANY, the memory-model abstraction (release/acquire views with fences, no "
                                     "load buffering, append-only modification order), the regular-expression extractor of "
                                     "orderings (a changed operation skeleton is a tool error unless the run-time part "
                                     "already shows a violation)."),
})

PENDING = {}

TITLES = {}
with open(os.path.join(VERIF, "properties.jsonl")) as f:
    for ln in f:
        p = json.loads(ln)
        TITLES[p["id"]] = p["title"]


def main():
    try:
        commits = subprocess.run(["git", "-C", "/repo", "log", "--format=%h %s"], stdout=subprocess.PIPE,
                                 text=True).stdout.splitlines()
    except Exception:
        commits = []
    hook_commits = [c.split()[0] for c in commits if c.split(" ", 1)[1].startswith("verif hooks")]
    checks = []
    for pid in sorted(CHECKS):
        c = CHECKS[pid]
        checks.append(dict(
            property_id=pid,
            quick_cmd=f"./check {pid} quick",
            thorough_cmd=f"./check {pid} thorough",
            evidence_file=f"/verif/evidence/{pid}.json",
            replay_cmd_template="./check replay {path}",
            engine=c.get("engine", "simcore"),
            level_claimed=dict(category="model_checking", text=c["text"], design_ref="DESIGN.md section " + c["design"]),
            level_note=c["note"],
            technique="TLA+ specification " + c["spec"] + " model-checked with TLC; bound to the code by replay of "
                      "TLC-generated behaviours and TLC trace validation of recorded executions"))
    na = []
    for pid in sorted(TITLES):
        if pid not in CHECKS:
            na.append(dict(property_id=pid, reason=PENDING.get(
                pid, "not claimed yet: its specification and binding (DESIGN.md section 6) are not built at this commit")))
    m = dict(
        version=1,
        setup_cmd="./check setup",
        hooks=dict(guard="nexosim_verif",
                   enable="--cfg nexosim_verif through /verif/harness/.cargo/config.toml (rustflags); the harness has a "
                          "path dependency on /repo/nexosim and is rebuilt by every check",
                   baseline_off_cmd="cd /repo && cargo nextest run --workspace --no-fail-fast --offline || "
                                    "cargo test --workspace --no-fail-fast --offline",
                   source_commits=hook_commits, add_only=True),
        engines=[
            dict(name="queue", path="/verif/specs/QueueRA.tla /verif/tools/orderings.py /verif/specs/MpscQueue.tla /verif/specs/MC_MpscQueue.tla /verif/specs/MpscQueue_Trace.tla "
                                    "/verif/tools/check_queue.py /verif/harness/src/queue.rs",
                 serves_properties=["C12"],
                 kind_free_text="TLC interleaving exploration + sequential history replay + linearisability checking of "
                                "real-thread executions by trace validation"),
            dict(name="task", path="/verif/specs/Task.tla /verif/specs/MC_Task.tla /verif/specs/Task_Trace.tla "
                                   "/verif/tools/check_task.py /verif/harness/src/taskeng.rs",
                 serves_properties=["C13"],
                 kind_free_text="TLC interleaving exploration + sequential replay + trace validation of real threads"),
            dict(name="seqlock", path="/verif/specs/SeqLock.tla /verif/specs/SeqLock_Trace.tla /verif/tools/orderings.py "
                                      "/verif/tools/check_seqlock.py /verif/harness/src/timecell.rs",
                 serves_properties=["C15"],
                 kind_free_text="TLC on a weak-memory model with orderings extracted from the source + trace validation"),
            dict(name="pool", path="/verif/specs/Pool.tla /verif/specs/Pool_Trace.tla /verif/tools/pooldefs.py "
                                   "/verif/tools/check_pool.py /verif/harness/src/pool.rs",
                 serves_properties=["C04", "C06", "C19"],
                 kind_free_text="TLC interleaving exploration with structural parameters extracted from the source + trace "
                                "validation of the real thread pool (all shared-memory steps inferred) + burst runs"),
            dict(name="chan", path="/verif/specs/Channel.tla /verif/specs/MC_Channel.tla /verif/tools/check_chan.py "
                                   "/verif/harness/src/chan.rs",
                 serves_properties=["C12", "C06"],
                 kind_free_text="TLC history enumeration + replay of every history on the real channel with counting wakers"),
            dict(name="taskset", path="/verif/specs/TaskSet.tla /verif/specs/MC_TaskSet.tla /verif/tools/check_taskset.py "
                                      "/verif/harness/src/taskset.rs",
                 serves_properties=["C14"],
                 kind_free_text="TLC interleaving exploration at atomic-step granularity + replay of every sequential history"),
            dict(name="crw", path="/verif/specs/CachedRwLock.tla /verif/specs/CachedRwLock_Trace.tla /verif/tools/crwdefs.py "
                                  "/verif/harness/src/clones.rs",
                 serves_properties=["C14"],
                 kind_free_text="TLC interleaving exploration with structure extracted from the source + trace validation of "
                                "real threads"),
            dict(name="slot_ra", path="/verif/specs/SlotRA.tla /verif/tools/slotdefs.py /verif/tools/orderings.py",
                 serves_properties=["C14"],
                 kind_free_text="TLC on a weak-memory model with orderings extracted from the source"),
            dict(name="seqds", path="/verif/specs/Sinks.tla /verif/specs/PQ.tla /verif/specs/PQ_Trace.tla "
                                    "/verif/tools/check_seqds.py /verif/harness/src/seqds.rs",
                 serves_properties=["C17", "C20"],
                 kind_free_text="TLC behaviour enumeration + replay with value comparison + trace validation"),
            dict(name="bench", path="/verif/specs/Bench.tla /verif/specs/MC_Bench.tla /verif/specs/Bench_Trace.tla "
                                    "/verif/tools/check_bench.py /verif/tools/benchrun.py /verif/harness/src/bench.rs",
                 serves_properties=["C02", "C03", "C04", "C05", "C06", "C14", "C16"],
                 kind_free_text="TLC exhaustive schedule exploration + systematic schedule enumeration on the real "
                                "executor (pick/yield hooks) + trace validation"),
            dict(name="simcore", path="/verif/specs/SimCore.tla /verif/specs/SimCore_Trace.tla /verif/tools/check_simcore.py "
                                      "/verif/harness/src/simcore.rs",
                 serves_properties=["C01", "C07", "C08", "C09", "C10", "C11", "C18", "C19"],
                 kind_free_text="TLC exhaustive model checking + behaviour replay + trace validation"),
        ],
        checks=checks,
        notes="See DESIGN.md. Exit 2 from a check is a tool error, never a verdict.",
        not_applicable=na)
    with open(os.path.join(VERIF, "MANIFEST.json"), "w") as f:
        json.dump(m, f, indent=1)
    print("MANIFEST.json:", len(checks), "checks,", len(na), "not claimed")


if __name__ == "__main__":
    main()
