"""SimCore binding: TLC behaviour generation, harness execution, trace validation."""
import json
import os
import random
import resource
import subprocess
import time

from simbench import BENCHES, bench_constants, write_mc_module
from tla import OUT, ToolError, parse_printed, run_tlc, confirm_rejection

HARNESS = os.path.join(os.path.dirname(OUT), "harness", "target", "release", "vharness")

PROP_INVARIANTS = [
    "PendingStrictlyFuture", "FiresAtDeadline", "ChronologicalOrder", "StepPost", "ExactFirings",
    "ScheduleValidated", "SameOriginFifo", "NoFireAfterCancel", "CancelIsLocal", "TerminatedSticky",
    "NonFatalKeepsUsable", "SyncMonotone", "SyncBeforeCompute", "SyncCoversNow", "SyncOncePerNewTime",
    "OutOfSyncGates"]


def model_check(bench, workdir, workers=12, overrides=None, timeout=1800):
    mod, cfg = write_mc_module(bench, workdir, emit=False, overrides=overrides)
    return run_tlc(mod, cfg, workdir, workers=workers, timeout=timeout)


def gen_behaviours(bench, workdir, overrides=None, workers=8, timeout=1800):
    """All maximal driver command sequences of the bounded instance, as lists of command dicts."""
    mod, cfg = write_mc_module(bench, workdir, emit=True, overrides=overrides)
    r = run_tlc(mod, cfg, workdir, workers=workers, timeout=timeout)
    if not r.ok:
        raise ToolError("behaviour generation hit a violation: %s" % r.violation)
    seen = set()
    out = []
    for line in r.printed:
        _, hist = parse_printed(line)
        key = json.dumps(hist, sort_keys=True)
        if key not in seen:
            seen.add(key)
            out.append(hist)
    return out, r


# ---------------------------------------------------------------------------------------------
# Random drivers (implementation -> specification direction)

def random_cmds(bench, rng, length, profile=None):
    """A random driver command sequence: the commands of the bench's alphabet with widened deadlines and
    periods (the specification is not bounded in trace validation, only the TLC instances are)."""
    mcc = bench["mc"]
    prof = dict(sched=0.4, cancel=0.1, step=0.2, until=0.15, process=0.15, dmax=4, permax=3, untilmax=4)
    if profile:
        prof.update(profile)
    cmds = []
    now_guess = 0
    kinds = [k for k in ("sched", "cancel", "step", "until", "process")
             if (k != "sched" or mcc["SchedCmds"]) and (k != "cancel" or mcc["CancelSlots"])
             and (k != "step" or mcc["StepOn"]) and (k != "until" or mcc["Untils"])
             and (k != "process" or mcc["Procs"])]
    weights = [prof[k] for k in kinds]
    for _ in range(length):
        choice = rng.choices(kinds, weights)[0]
        if choice == "sched":
            c = dict(rng.choice(mcc["SchedCmds"]))
            if rng.random() < 0.6:
                if c["abs"]:
                    c["d"] = now_guess + rng.randint(-1, prof["dmax"])
                    if c["d"] < 0:
                        c["d"] = 0
                else:
                    c["d"] = rng.randint(0, prof["dmax"]) if rng.random() < 0.15 else rng.randint(1, prof["dmax"])
                if c["kind"] in ("periodic", "kperiodic") and c["per"] > 0:
                    c["per"] = rng.randint(1, prof["permax"])
            cmds.append(dict(c="sched", **c))
        elif choice == "cancel":
            cmds.append(dict(c="cancel", slot=rng.choice(mcc["CancelSlots"]),
                             how=rng.choice(["cancel", "cancel", "auto"])))
        elif choice == "step":
            cmds.append(dict(c="step"))
            now_guess += 1
        elif choice == "until":
            u = dict(rng.choice(mcc["Untils"]))
            if rng.random() < 0.5:
                if u["abs"]:
                    u["d"] = max(0, now_guess + rng.randint(-1, prof["untilmax"]))
                else:
                    u["d"] = rng.randint(0, prof["untilmax"])
            if not u["abs"]:
                now_guess += u["d"]
            cmds.append(dict(c="step_until", **u))
        else:
            cmds.append(dict(c="process", **rng.choice(mcc["Procs"])))
    return cmds


def make_runs(cmd_lists, threads=(1,), tick_ns=(1,), lags=None, rng=None, t0_secs=0, lag_choices=None):
    runs = []
    rid = 0
    for cmds in cmd_lists:
        for th in threads:
            for tk in tick_ns:
                rid += 1
                lg = []
                if lag_choices and rng is not None:
                    lg = [rng.choice(lag_choices) if rng.random() < 0.35 else 0 for _ in range(3 * len(cmds) + 2)]
                    lg[0] = 0
                elif lags:
                    lg = lags
                runs.append(dict(id=rid, threads=th, tick_ns=tk, t0_secs=t0_secs, lags=lg, cmds=cmds))
    return runs


# ---------------------------------------------------------------------------------------------
# Harness execution

def _limit():
    resource.setrlimit(resource.RLIMIT_AS, (6 << 30, 6 << 30))
    resource.setrlimit(resource.RLIMIT_CORE, (0, 0))


def split_runs(lines):
    """ndjson lines -> list of runs (each a list of parsed events, starting with its reset event)."""
    runs = []
    for ln in lines:
        ln = ln.strip()
        if not ln:
            continue
        try:
            e = json.loads(ln)
        except ValueError:
            continue  # a line cut short by a crash
        if e.get("ev") == "reset":
            runs.append([e])
        elif runs:
            runs[-1].append(e)
    return runs


def run_harness(bench, runs, workdir, tag, nproc=8, per_run_timeout=30.0):
    """Executes the runs on the real crate.  Returns (traces, incidents): traces is a list of runs (lists of
    events); incidents lists runs whose execution hung or crashed the harness process (the trace of such a
    run ends with a synthetic {"ev": "hang"|"crash"} event)."""
    os.makedirs(workdir, exist_ok=True)
    if not os.path.exists(HARNESS):
        raise ToolError("harness binary missing: " + HARNESS)
    benchj = {k: bench[k] for k in ("models", "prog", "conn", "srcconn", "tolerance", "timeout_on")}
    chunks = [runs[i::nproc] for i in range(nproc)]
    chunks = [c for c in chunks if c]
    procs = []
    for i, ch in enumerate(chunks):
        procs.append(_start(benchj, ch, workdir, f"{tag}_{i}"))
    traces, incidents = [], []
    pending = list(zip(procs, chunks, range(len(chunks))))
    gen = 0
    while pending:
        nxt = []
        for (p, inp, outp), ch, idx in pending:
            budget = 60 + per_run_timeout * len(ch)
            try:
                rc = p.wait(timeout=budget)
            except subprocess.TimeoutExpired:
                p.kill()
                p.wait()
                rc = -9
            with open(outp, errors="replace") as f:
                got = split_runs(f.readlines())
            complete = [r for r in got if r and r[-1].get("ev") == "end"]
            traces.extend(complete)
            if rc != 0:
                done_ids = {r[0]["run"] for r in complete}
                rest = [r for r in ch if r["id"] not in done_ids]
                if not rest:
                    continue
                bad = rest[0]
                partial = [r for r in got if r and r[0]["run"] == bad["id"]]
                tr = partial[0] if partial else [dict(ev="reset", run=bad["id"], threads=bad["threads"],
                                                      tick_ns=bad["tick_ns"])]
                kind = "hang" if rc == 3 or rc == -9 else "crash"
                tr.append(dict(ev=kind, rc=rc))
                traces.append(tr)
                incidents.append(dict(run=bad["id"], kind=kind, rc=rc, cmds=bad["cmds"], threads=bad["threads"]))
                rest = rest[1:]
                if rest:
                    gen += 1
                    nxt.append((_start(benchj, rest, workdir, f"{tag}_{idx}_r{gen}"), rest, idx))
            for pth in (inp,):
                try:
                    os.remove(pth)
                except OSError:
                    pass
        pending = nxt
    traces.sort(key=lambda r: r[0]["run"])
    return traces, incidents


def _start(benchj, runs, workdir, name):
    inp = os.path.join(workdir, name + ".in.json")
    outp = os.path.join(workdir, name + ".trace.ndjson")
    with open(inp, "w") as f:
        json.dump(dict(bench=benchj, runs=runs), f)
    env = dict(os.environ, RUST_BACKTRACE="0")
    p = subprocess.Popen([HARNESS, "simcore", inp, outp], stdout=subprocess.DEVNULL, stderr=subprocess.PIPE,
                         preexec_fn=_limit, env=env)
    return p, inp, outp


# ---------------------------------------------------------------------------------------------
# Trace validation

def write_trace_module(bench, workdir, invariants=PROP_INVARIANTS):
    mod = f"Tr_{bench['name']}"
    lines = [f"---- MODULE {mod} ----", "EXTENDS SimCore_Trace"] + bench_constants(bench) + ["===="]
    with open(os.path.join(workdir, mod + ".tla"), "w") as f:
        f.write("\n".join(lines) + "\n")
    cfg = ["SPECIFICATION TraceSpec", "CONSTANTS",
           "  ModelSeq <- c_ModelSeq", "  Prog <- c_Prog", "  Conn <- c_Conn", "  SrcConn <- c_SrcConn",
           "  Tolerance <- c_Tolerance", f"  TimeoutOn = {'TRUE' if bench['timeout_on'] else 'FALSE'}",
           "CONSTRAINT Track", "POSTCONDITION TraceAccepted", "CHECK_DEADLOCK FALSE"]
    if invariants:
        cfg += ["INVARIANTS", "  " + " ".join(invariants)]
    with open(os.path.join(workdir, mod + ".cfg"), "w") as f:
        f.write("\n".join(cfg) + "\n")
    return mod, mod + ".cfg"


class Rejection:
    def __init__(self, run, index, event, reason, context):
        self.run = run          # the run (list of events)
        self.index = index      # index (0-based) of the first event that could not be matched
        self.event = event
        self.reason = reason    # "unmatched" | "invariant:<name>" | "hang" | "crash"
        self.context = context  # a few events before


def _norm_event(e):
    if "wild" not in e:
        e = dict(e, wild=[])
    if e.get("ev") == "reset" and "ss" not in e:
        e = dict(e, ss=False)
    return e


def _validate_chunk(bench, mod, cfg, chunk, workdir, tag, max_rejections, timeout):
    """Validates one chunk of runs (sequentially re-starting after each rejected run)."""
    remaining = list(chunk)
    rejections = []
    accepted = 0
    stats = dict(states=0, transitions=0, wall=0.0, events=0)
    rnd = 0
    while remaining and len(rejections) < max_rejections:
        rnd += 1
        path = os.path.join(workdir, f"{tag}_v{rnd}.ndjson")
        with open(path, "w") as f:
            for r in remaining:
                for e in r:
                    if "wild" not in e:
                        e = dict(e, wild=[])
                    if e.get("ev") == "reset" and "ss" not in e:
                        e = dict(e, ss=False)
                    f.write(json.dumps(e) + "\n")
        nev = sum(len(r) for r in remaining)
        res = run_tlc(mod, cfg, workdir, workers=1, timeout=timeout, dfs=True, heap="3g",
                      env_extra={"TRACE": path}, tags=("TRACE_REJECTED",), metaname=tag)
        stats["states"] += res.distinct
        stats["transitions"] += res.generated
        stats["wall"] += res.wall
        if res.ok:
            accepted += len(remaining)
            stats["events"] += nev
            os.remove(path)
            break
        # find the run that contains the failing event
        # (when an invariant is violated TLC still evaluates the postcondition, whose message must then be ignored)
        if res.violation and res.violation.startswith("Invariant"):
            # the state that violates the invariant is the last of the printed counterexample
            ls = [ln for ln in res.trace if ln.startswith("/\\ l = ")]
            n = int(ls[-1].split("=")[1]) - 2 if ls else 0
            reason = "invariant:" + res.violation.split()[1]
        elif res.violation == "postcondition" or res.printed:
            if not res.printed:
                raise ToolError("trace rejected without position:\n" + res.output[-2000:])
            m = res.printed[-1]
            n = int(m.split(",")[1].strip())
            reason = "unmatched"
        else:
            raise ToolError("unexpected TLC outcome in trace validation: %s\n%s" % (res.violation, res.output[-3000:]))
        pos = 0
        hit = None
        for i, r in enumerate(remaining):
            if n < pos + len(r):
                hit = i
                break
            pos += len(r)
        if hit is None:
            raise ToolError(f"rejection index {n} outside the trace ({nev} events)")
        accepted += hit
        stats["events"] += pos
        r = remaining[hit]
        k = max(0, n - pos)
        ev = r[k] if k < len(r) else None
        rs = reason
        if ev is not None and ev.get("ev") in ("hang", "crash") and reason == "unmatched":
            rs = ev["ev"]
        os.remove(path)
        remaining = remaining[hit + 1:]
        if not confirm_rejection(mod, cfg, workdir, tag, r, res, write_event=_norm_event):
            accepted += 1
            continue
        rejections.append(Rejection(r, k, ev, rs, r[max(0, k - 6):k]))
    return accepted, rejections, stats


def validate(bench, traces, workdir, tag, max_rejections=10, invariants=PROP_INVARIANTS, timeout=900,
             chunk_events=40000, parallel=8):
    """Validates runs against SimCore_Trace.  Returns (n_accepted, rejections, tlc_stats)."""
    from concurrent.futures import ThreadPoolExecutor
    os.makedirs(workdir, exist_ok=True)
    mod, cfg = write_trace_module(bench, workdir, invariants)
    chunks, cur, n = [], [], 0
    for r in traces:
        cur.append(r)
        n += len(r)
        if n >= chunk_events:
            chunks.append(cur)
            cur, n = [], 0
    if cur:
        chunks.append(cur)
    accepted, rejections = 0, []
    stats = dict(states=0, transitions=0, wall=0.0, events=0)
    with ThreadPoolExecutor(max_workers=parallel) as ex:
        futs = [ex.submit(_validate_chunk, bench, mod, cfg, ch, workdir, f"{tag}_c{i}", max_rejections, timeout)
                for i, ch in enumerate(chunks)]
        for f in futs:
            a, rj, st = f.result()
            accepted += a
            rejections.extend(rj)
            for k in stats:
                stats[k] += st[k]
    return accepted, rejections[:max_rejections], stats


def silence_sync(run):
    """Projection: drop the synchronize calls after the initial one (the specification then takes them
    silently); used by the checks of properties that say nothing about the clock."""
    out = []
    seen_boot = False
    for e in run:
        if e.get("ev") == "reset":
            out.append(dict(e, ss=True))
        elif e.get("ev") == "sync":
            if not seen_boot:
                seen_boot = True
                out.append(e)
        else:
            out.append(e)
    return out


def project_drop(run, keep):
    """Projection for the properties other than C19: the drop accounting event is not compared, and a drop that
    hangs or crashes after the last command returned is not this property's business."""
    if keep:
        return run
    out = []
    for i, e in enumerate(run):
        if e.get("ev") == "drop":
            out.append(dict(e, wild=["drop"]))
        elif e.get("ev") in ("hang", "crash") and i > 0 and run[i - 1].get("ev") == "ret" and not _cmds_left(run):
            out.append(dict(ev="drop", wild=["drop"], abandoned=False))
            out.append(dict(ev="end", run=run[0].get("run")))
        else:
            out.append(e)
    return out


def _cmds_left(run):
    ncmd = run[0].get("ncmds")
    if ncmd is None:
        return False
    done = sum(1 for e in run if e.get("ev") == "cmd")
    return done < ncmd


def strip_stray(run):
    """On the thread pool a run aborted by a panic returns while other workers may still be finishing the handler
    they were in; the events of that tail (logged between the failing return and the next command) belong to the
    aborted run, which the specification covers by letting handlers progress until Abort: they are dropped here."""
    if run[0].get("threads", 1) <= 1:
        return run
    out, skipping = [], False
    for e in run:
        ev = e.get("ev")
        if skipping and ev in ("begin", "op"):
            continue
        if ev in ("cmd", "drop", "end", "hang", "crash"):
            skipping = False
        out.append(e)
        if ev == "ret" and e["res"].get("r") in ("panic", "norecipient"):
            skipping = True
    return out
