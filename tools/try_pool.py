import random, os, sys
import check_pool, pooldefs
from framework import Check, build_harness
from tla import OUT
build_harness()
print(check_pool.extract_structure())
chk=Check(sys.argv[1] if len(sys.argv)>1 else "C04","quick",1)
check_pool.pool_part(chk, random.Random(1), False, os.path.join(OUT,"pooltry"), pooldefs.INVARIANTS)
print("violations", len(chk.violations))
for v in chk.violations[:4]: print("  ", v["what"][:400])
