"""Common machinery of the checks: harness build, evidence, violation reporting, known findings."""
import json
import os
import subprocess
import sys
import time

from tla import OUT, VERIF, ToolError

HARNESS_DIR = os.path.join(VERIF, "harness")
HARNESS = os.path.join(HARNESS_DIR, "target", "release", "vharness")
EVIDENCE = os.path.join(VERIF, "evidence")
REPLAYS = os.path.join(OUT, "replays")
KNOWN = os.path.join(VERIF, "known_findings.json")


def build_harness():
    """Rebuilds the harness (and nexosim with the hooks on) from /repo's current working tree."""
    env = dict(os.environ, CARGO_NET_OFFLINE="true")
    env.pop("RUSTFLAGS", None)
    t0 = time.time()
    p = subprocess.run(["cargo", "build", "--release", "--offline"], cwd=HARNESS_DIR, env=env,
                       stdout=subprocess.PIPE, stderr=subprocess.STDOUT, text=True)
    if p.returncode != 0:
        raise ToolError("cargo build of the harness failed:\n" + p.stdout[-6000:])
    return time.time() - t0


class Check:
    """Accumulates what a check run covered and what it found."""

    def __init__(self, prop, tier, seed):
        self.prop = prop
        self.tier = tier
        self.seed = seed
        self.t0 = time.time()
        self.states = 0
        self.transitions = 0
        self.traces = 0
        self.evaluations = 0
        self.samples = []
        self.violations = []   # dicts: what, replay
        self.known_hits = []
        self.engines = {}
        self.assumptions = []
        self.notes = []
        self.exhaustive = False
        with open(KNOWN) as f:
            self.known = json.load(f)

    # ---- coverage accounting
    def add_tlc(self, name, res):
        self.states += res.distinct
        self.transitions += res.generated
        self.engines.setdefault("tlc", []).append(
            dict(config=name, distinct=res.distinct, generated=res.generated, depth=res.depth,
                 wall_s=round(res.wall, 1)))

    def add_trace_stats(self, name, n_traces, st):
        self.traces += n_traces
        self.states += st["states"]
        self.transitions += st["transitions"]
        self.engines.setdefault("trace_validation", []).append(
            dict(source=name, traces=n_traces, events=st["events"], tlc_states=st["states"],
                 wall_s=round(st["wall"], 1)))

    def sample(self, obj):
        if len(self.samples) < 6:
            self.samples.append(obj)

    # ---- findings
    def violation(self, what, replay_obj, signature=None):
        """Records a violation unless it matches a listed known finding."""
        sig = signature or what
        for k in self.known.get("findings", []):
            if k["property"] == self.prop and k["signature"] == sig:
                if sig not in [h["signature"] for h in self.known_hits]:
                    self.known_hits.append(k)
                return
        os.makedirs(REPLAYS, exist_ok=True)
        path = os.path.join(REPLAYS, f"{self.prop}_{len(self.violations) + 1}.json")
        with open(path, "w") as f:
            json.dump(dict(property=self.prop, what=what, **replay_obj), f, indent=1)
        self.violations.append(dict(what=what, replay=path))

    # ---- finish
    def finish(self, level="model_checking", rule=None, extra=None):
        wall = time.time() - self.t0
        import tla
        if tla.SPURIOUS:
            self.notes.append(f"{len(tla.SPURIOUS)} rejection(s) by TLC inside a concatenation of runs were not reproduced by a "
                              f"fresh TLC process on the run alone and count as accepted (kept under out/spurious): "
                              f"{tla.SPURIOUS[:5]}")
        cov = dict(states=max(self.states, 0), transitions=max(self.transitions, 0),
                   traces_validated_against_impl=self.traces, samples=self.samples or ["(none)"],
                   evaluations=self.evaluations, exhaustive=self.exhaustive, engines=self.engines)
        if rule:
            cov["rule"] = rule
        if extra:
            cov.update(extra)
        ev = dict(property_id=self.prop, tier=self.tier, seed=self.seed, level=level, coverage=cov,
                  assumptions=self.assumptions, wall_s=round(wall, 1), violations=len(self.violations),
                  notes=self.notes)
        os.makedirs(EVIDENCE, exist_ok=True)
        with open(os.path.join(EVIDENCE, f"{self.prop}.json"), "w") as f:
            json.dump(ev, f, indent=1, default=str)
        for k in self.known_hits:
            print(f"KNOWN-FINDING: property={self.prop} {k['what']}")
        for v in self.violations:
            print(f"VIOLATION property={self.prop} replay={v['replay']}")
            print("  " + v["what"])
        print(f"{self.prop} {self.tier}: states={self.states} transitions={self.transitions} "
              f"traces={self.traces} violations={len(self.violations)} wall={wall:.0f}s")
        return 1 if self.violations else 0


TRUSTED = [
    "TLC 1.8.0 and SANY (explicit-state model checker and parser)",
    "the Rust harness /verif/harness (scripted models, recorders) and the Python drivers in /verif/tools",
    "results hold for the bounded constants listed under coverage.engines; larger instances are reached by "
    "recorded traces only (sampling)",
    "external crates used by nexosim (st3, async-event, diatomic-waker, parking, multishot, recycle-box, slab) "
    "are exercised as they are, not modelled below their API",
]
