"""B4: extraction of the memory orderings of the sequence lock from the current source."""
import os
import re

from tla import ToolError

REPO = os.environ.get("VERIF_REPO", "/repo")
SYNC_CELL = REPO + "/nexosim/src/util/sync_cell.rs"
MONO = REPO + "/nexosim/src/time/monotonic_time.rs"


def _body(src, header):
    i = src.find(header)
    if i < 0:
        raise ToolError(f"specification out of date: `{header}` not found")
    j = src.find("{", i)
    depth, k = 0, j
    while k < len(src):
        if src[k] == "{":
            depth += 1
        elif src[k] == "}":
            depth -= 1
            if depth == 0:
                return src[j:k + 1]
        k += 1
    raise ToolError("unbalanced braces")


def _strip_comments(s):
    return re.sub(r"//[^\n]*", "", s)


def _ord(tok, kind):
    if tok == "Relaxed":
        return "rlx"
    if kind == "load" and tok in ("Acquire", "SeqCst"):
        return "acq"
    if kind == "store" and tok in ("Release", "SeqCst"):
        return "rel"
    raise ToolError(f"specification out of date: unexpected ordering {tok} for a {kind}")


def extract():
    sc = _strip_comments(open(SYNC_CELL).read())
    mt = _strip_comments(open(MONO).read())
    w = _body(sc, "pub(crate) fn write(&self")
    r = _body(sc, "pub(crate) fn try_read(&self")
    seq_ops_w = re.findall(r"sequence\s*\.\s*(load|store)\s*\(([^;]*?)Ordering::(\w+)\s*\)", w, re.S)
    seq_ops_r = re.findall(r"sequence\s*\.\s*(load|store)\s*\(([^;]*?)Ordering::(\w+)\s*\)", r, re.S)
    if [o[0] for o in seq_ops_w] != ["load", "store", "store"] or [o[0] for o in seq_ops_r] != ["load", "load"]:
        raise ToolError("specification out of date: the atomic operations of SyncCell::write / try_read on the "
                        f"sequence count changed: {[o[0] for o in seq_ops_w]} / {[o[0] for o in seq_ops_r]}")
    fw = re.findall(r"fence\s*\(\s*Ordering::(\w+)\s*\)", w)
    fr = re.findall(r"fence\s*\(\s*Ordering::(\w+)\s*\)", r)
    # position of the writer's fence: it must sit between the odd store and the value store
    pos_ok_w = True
    if fw:
        pos_ok_w = w.find("fence") > w.find(".store(") and w.find("fence") < w.find("tearable_store")
    pos_ok_r = True
    if fr:
        pos_ok_r = r.find("fence") > r.find("tearable_load") and r.find("fence") < r.rfind("sequence")
    ts = _body(mt, "fn tearable_store(&self")
    tl = _body(mt, "fn tearable_load(&self")
    # the instrumented variant of the loads (under the verification cfg) is not the code being extracted
    if "#[cfg(not(nexosim_verif))]" in tl:
        tl = tl[tl.index("#[cfg(not(nexosim_verif))]"):]
    st = re.findall(r"\.store\s*\([^;]*?Ordering::(\w+)\s*\)", ts, re.S)
    ld = re.findall(r"\.load\s*\(\s*Ordering::(\w+)\s*\)", tl, re.S)
    if len(st) != 2 or len(ld) != 2:
        raise ToolError("specification out of date: TearableAtomicTime no longer stores/loads two words")
    consts = dict(
        OStoreOdd=_ord(seq_ops_w[1][2], "store"),
        FenceW=bool(fw) and fw[0] in ("Release", "AcqRel", "SeqCst") and pos_ok_w,
        OStoreVal="rlx" if all(x == "Relaxed" for x in st) else "rel",
        OStoreEven=_ord(seq_ops_w[2][2], "store"),
        OLoadSeq1=_ord(seq_ops_r[0][2], "load"),
        OLoadVal="rlx" if all(x == "Relaxed" for x in ld) else "acq",
        FenceR=bool(fr) and fr[0] in ("Acquire", "AcqRel", "SeqCst") and pos_ok_r,
        OLoadSeq2=_ord(seq_ops_r[1][2], "load"),
    )
    # order of the two word stores / loads (secs then nanos in both) does not matter to the protocol
    return consts


if __name__ == "__main__":
    print(extract())
