"""B4: extraction of the memory orderings of the sequence lock from the current source."""
import os
import re

from tla import ToolError

REPO = os.environ.get("VERIF_REPO", "/repo")
SYNC_CELL = REPO + "/nexosim/src/util/sync_cell.rs"
MONO = REPO + "/nexosim/src/time/monotonic_time.rs"


def _body(src, header):
    i = src.find(header)
    if i < 0:
        raise ToolError(f"specification out of date: `{header}` not found")
    j = src.find("{", i)
    depth, k = 0, j
    while k < len(src):
        if src[k] == "{":
            depth += 1
        elif src[k] == "}":
            depth -= 1
            if depth == 0:
                return src[j:k + 1]
        k += 1
    raise ToolError("unbalanced braces")


def _strip_comments(s):
    return re.sub(r"//[^\n]*", "", s)


def _ord(tok, kind):
    if tok == "Relaxed":
        return "rlx"
    if kind == "load" and tok in ("Acquire", "SeqCst"):
        return "acq"
    if kind == "store" and tok in ("Release", "SeqCst"):
        return "rel"
    raise ToolError(f"specification out of date: unexpected ordering {tok} for a {kind}")


def extract():
    sc = _strip_comments(open(SYNC_CELL).read())
    mt = _strip_comments(open(MONO).read())
    w = _body(sc, "pub(crate) fn write(&self")
    r = _body(sc, "pub(crate) fn try_read(&self")
    seq_ops_w = re.findall(r"sequence\s*\.\s*(load|store)\s*\(([^;]*?)Ordering::(\w+)\s*\)", w, re.S)
    seq_ops_r = re.findall(r"sequence\s*\.\s*(load|store)\s*\(([^;]*?)Ordering::(\w+)\s*\)", r, re.S)
    if [o[0] for o in seq_ops_w] != ["load", "store", "store"] or [o[0] for o in seq_ops_r] != ["load", "load"]:
        raise ToolError("specification out of date: the atomic operations of SyncCell::write / try_read on the "
                        f"sequence count changed: {[o[0] for o in seq_ops_w]} / {[o[0] for o in seq_ops_r]}")
    fw = re.findall(r"fence\s*\(\s*Ordering::(\w+)\s*\)", w)
    fr = re.findall(r"fence\s*\(\s*Ordering::(\w+)\s*\)", r)
    # position of the writer's fence: it must sit between the odd store and the value store
    pos_ok_w = True
    if fw:
        pos_ok_w = w.find("fence") > w.find(".store(") and w.find("fence") < w.find("tearable_store")
    pos_ok_r = True
    if fr:
        pos_ok_r = r.find("fence") > r.find("tearable_load") and r.find("fence") < r.rfind("sequence")
    ts = _body(mt, "fn tearable_store(&self")
    tl = _body(mt, "fn tearable_load(&self")
    # the instrumented variant of the loads (under the verification cfg) is not the code being extracted
    if "#[cfg(not(nexosim_verif))]" in tl:
        tl = tl[tl.index("#[cfg(not(nexosim_verif))]"):]
    st = re.findall(r"\.store\s*\([^;]*?Ordering::(\w+)\s*\)", ts, re.S)
    ld = re.findall(r"\.load\s*\(\s*Ordering::(\w+)\s*\)", tl, re.S)
    if len(st) != 2 or len(ld) != 2:
        raise ToolError("specification out of date: TearableAtomicTime no longer stores/loads two words")
    consts = dict(
        OStoreOdd=_ord(seq_ops_w[1][2], "store"),
        FenceW=bool(fw) and fw[0] in ("Release", "AcqRel", "SeqCst") and pos_ok_w,
        OStoreVal="rlx" if all(x == "Relaxed" for x in st) else "rel",
        OStoreEven=_ord(seq_ops_w[2][2], "store"),
        OLoadSeq1=_ord(seq_ops_r[0][2], "load"),
        OLoadVal="rlx" if all(x == "Relaxed" for x in ld) else "acq",
        FenceR=bool(fr) and fr[0] in ("Acquire", "AcqRel", "SeqCst") and pos_ok_r,
        OLoadSeq2=_ord(seq_ops_r[1][2], "load"),
    )
    # order of the two word stores / loads (secs then nanos in both) does not matter to the protocol
    return consts


if __name__ == "__main__":
    print(extract())


# ---------------------------------------------------------------------------------------------------------------------
# the mailbox queue (QueueRA.tla)
QUEUE = REPO + "/nexosim/src/channel/queue.rs"

_ATOMIC = re.compile(r"(enqueue_pos|dequeue_pos|stamp)\s*\.\s*(load|store|compare_exchange_weak|compare_exchange|"
                     r"fetch_or|fetch_add|swap)\s*\(", re.S)


def _atomics(body):
    """[(location, operation, [orderings], offset)] in source order"""
    out = []
    for m in _ATOMIC.finditer(body):
        # arguments up to the matching parenthesis
        depth, k = 1, m.end()
        while k < len(body) and depth:
            depth += body[k] == "("
            depth -= body[k] == ")"
            k += 1
        out.append((m.group(1), m.group(2), re.findall(r"Ordering::(\w+)", body[m.end():k]), m.start()))
    return out


def _ord2(tok, kind):
    t = {"Relaxed": "rlx", "Acquire": "acq", "Release": "rel", "AcqRel": "acqrel", "SeqCst": "acqrel"}.get(tok)
    if t is None:
        raise ToolError(f"specification out of date: unknown ordering {tok}")
    if kind == "load" and t == "acqrel":
        t = "acq"
    if kind == "store" and t == "acqrel":
        t = "rel"
    return t


def extract_queue():
    src = _strip_comments(open(QUEUE).read())
    push = _body(src, "fn push<F>(&self")
    pop = _body(src, "unsafe fn pop(&self")
    drop = _body(src, "Drop for MessageBorrow")
    for name, b in (("push", push), ("pop", pop), ("MessageBorrow::drop", drop)):
        if re.search(r"\bfence\s*\(", b):
            raise ToolError(f"specification out of date: Queue::{name} now contains a fence (QueueRA.tla has none)")
    a_push, a_pop, a_drop = _atomics(push), _atomics(pop), _atomics(drop)
    shape = lambda a: [(x[0], x[1].replace("_weak", "")) for x in a]
    if shape(a_push) != [("enqueue_pos", "load"), ("stamp", "load"), ("enqueue_pos", "compare_exchange"),
                         ("stamp", "store"), ("enqueue_pos", "load")]:
        raise ToolError(f"specification out of date: the atomic operations of Queue::push changed: {shape(a_push)}")
    if shape(a_pop)[:3] != [("dequeue_pos", "load"), ("stamp", "load"), ("dequeue_pos", "store")] or \
            any(x[0] == "stamp" for x in a_pop[2:]):
        raise ToolError(f"specification out of date: the atomic operations of Queue::pop changed: {shape(a_pop)}")
    if shape(a_drop) != [("stamp", "store")]:
        raise ToolError(f"specification out of date: the atomic operations of MessageBorrow::drop changed: {shape(a_drop)}")
    # plain accesses to the message cell relative to the stamp operations
    w_push = push.find("message")
    w_drop = drop.find(".message")
    r_pop = pop.find(".message")
    if w_push < 0 or w_drop < 0 or r_pop < 0:
        raise ToolError("specification out of date: the accesses to the message cell were not found")
    if not (a_push[2][3] < w_push):
        raise ToolError("specification out of date: Queue::push touches the message cell before reserving the position")
    if not (a_pop[1][3] < r_pop):
        raise ToolError("specification out of date: Queue::pop touches the message cell before loading the stamp")
    # the reload of the position after a lagging read must be at least as strong as the first load for the model's
    # single OPLoadPos (both Relaxed in the code): take the weaker
    lp = {_ord2(a_push[0][2][0], "load"), _ord2(a_push[4][2][0], "load")}
    return dict(
        OPLoadPos="rlx" if "rlx" in lp else "acq",
        OPLoadStamp=_ord2(a_push[1][2][0], "load"),
        OPCas=_ord2(a_push[2][2][0], "rmw"),
        OPStoreStamp=_ord2(a_push[3][2][0], "store"),
        OCLoadStamp=_ord2(a_pop[1][2][0], "load"),
        OCStoreStamp=_ord2(a_drop[0][2][0], "store"),
        PushPublishesLast=w_push < a_push[3][3],
        DropPublishesLast=w_drop < a_drop[0][3],
    )


# ---------------------------------------------------------------------------------------------------------------------
# the one-shot reply slot (SlotRA.tla)
SLOT = REPO + "/nexosim/src/util/slot.rs"

_STATE_OP = re.compile(r"state\s*\.\s*(load|store|fetch_or|fetch_and|swap|compare_exchange_weak|compare_exchange)\s*\(", re.S)


def _state_ops(body):
    out = []
    for m in _STATE_OP.finditer(body):
        depth, k = 1, m.end()
        while k < len(body) and depth:
            depth += body[k] == "("
            depth -= body[k] == ")"
            k += 1
        out.append((m.group(1), re.findall(r"Ordering::(\w+)", body[m.end():k]), m.start()))
    return out


def extract_slot():
    src = _strip_comments(open(SLOT).read())
    write = _body(src, "pub(crate) fn write(self")
    wdrop = _body(src, "Drop for SlotWriter<T>")
    tread = _body(src, "pub(crate) fn try_read(&mut self")
    rdrop = _body(src, "Drop for SlotReader<T>")
    a_w, a_wd, a_r, a_rd = _state_ops(write), _state_ops(wdrop), _state_ops(tread), _state_ops(rdrop)
    shape = lambda a: [x[0] for x in a]
    if shape(a_w) != ["fetch_or"] or shape(a_wd) != ["load", "fetch_or"] or shape(a_r) != ["load", "store"] or \
            shape(a_rd) != ["load", "fetch_or"]:
        raise ToolError("specification out of date: the atomic operations of util/slot.rs changed: "
                        f"write {shape(a_w)}, writer drop {shape(a_wd)}, try_read {shape(a_r)}, reader drop {shape(a_rd)}")
    for name, b in (("SlotWriter::drop", wdrop), ("try_read", tread), ("SlotReader::drop", rdrop)):
        if re.search(r"\bfence\s*\(", b):
            raise ToolError(f"specification out of date: {name} of util/slot.rs now contains a fence")
    fences = [(m.group(1), m.start()) for m in re.finditer(r"\bfence\s*\(\s*Ordering::(\w+)\s*\)", write)]
    # program order: the value is written before the flag is published; it is read after the flag was loaded; the
    # writer's fence (if any) sits between its read-modify-write and the accesses it protects
    if not (0 <= write.find("write_value") < a_w[0][2]):
        raise ToolError("specification out of date: SlotWriter::write no longer writes the value before publishing the flag")
    if not (a_r[0][2] < tread.find("read_value")):
        raise ToolError("specification out of date: try_read reads the value before loading the state")
    first_use = min(x for x in (write.find("drop_value_in_place"), write.find("Box::from_raw")) if x >= 0)
    fence_ok = any(o in ("Acquire", "AcqRel", "SeqCst") and a_w[0][2] < pos < first_use for o, pos in fences)
    return dict(
        OWWrite=_ord2(a_w[0][1][0], "rmw"),
        FWClosed=fence_ok,
        OWDropLoad=_ord2(a_wd[0][1][0], "load"),
        OWDropRmw=_ord2(a_wd[1][1][0], "rmw"),
        ORRead=_ord2(a_r[0][1][0], "load"),
        ORStore=_ord2(a_r[1][1][0], "store"),
        ORDropLoad=_ord2(a_rd[0][1][0], "load"),
        ORDropRmw=_ord2(a_rd[1][1][0], "rmw"),
    )


# ---------------------------------------------------------------------------------------------------------------------
# CachedRwLock (CachedRwLock.tla): structural parameters
CRW = REPO + "/nexosim/src/util/cached_rw_lock.rs"


def _block_after(body, start):
    """(begin, end) offsets of the brace block that starts at or after offset `start`"""
    j = body.find("{", start)
    depth, k = 0, j
    while k < len(body):
        if body[k] == "{":
            depth += 1
        elif body[k] == "}":
            depth -= 1
            if depth == 0:
                return j, k
        k += 1
    raise ToolError("unbalanced braces")


def extract_crw():
    src = _strip_comments(open(CRW).read())
    write = _body(src, "pub(crate) fn write(&mut self)")
    lock_w = write.find(".lock()")
    store_w = write.find("epoch.store(")
    if lock_w < 0 or store_w < 0 or "epoch.load(" not in write:
        raise ToolError("specification out of date: CachedRwLock::write no longer locks the shared value and bumps the epoch")
    res = dict(BumpUnderLock=lock_w < store_w)
    refresh = []
    for header in ("pub(crate) fn write_scratchpad(&mut self)", "pub(crate) fn read(&mut self)"):
        b = _body(src, header)
        m = re.search(r"match\s+self\s*\.\s*shared\s*\.\s*value\s*\.\s*lock\s*\(\s*\)", b)
        loads = [x.start() for x in re.finditer(r"epoch\s*\.\s*load\s*\(", b)]
        clone = b.find("shared.clone()")
        if not m or len(loads) != 2 or clone < 0 or "!= self.epoch" not in b.replace("\n", " "):
            raise ToolError(f"specification out of date: the refresh path of CachedRwLock ({header.split('fn ')[1].split('(')[0]}) changed shape")
        beg, end = _block_after(b, m.end())
        # the first load is the unlocked check; the copy and the second load must sit inside the match on the lock result
        # ... with the guard still alive: no drop(<guard>) between the lock and the second load
        g = re.search(r"LockResult::Ok\((\w+)\)\s*=>", b[beg:end])
        dropped = bool(g) and re.search(r"\bdrop\s*\(\s*" + re.escape(g.group(1)) + r"\s*\)", b[beg:loads[1]]) is not None
        refresh.append(loads[0] < m.start() and beg < clone < end and beg < loads[1] < end and not dropped)
    res["RefreshUnderLock"] = all(refresh)
    return res
